#!/venv/bin/python
"""Debug helper: run every case of an EnumClause and list failures by signature. usage: enumfail.py <ID> <clause> [tier]"""
import sys, os, importlib, multiprocessing as mp
sys.path.insert(0, os.path.dirname(os.path.dirname(os.path.abspath(__file__))))
sys.path.insert(0, os.environ.get("VERIF_REPO", "/repo"))
from vlib.runner import Violation
pid, cname = sys.argv[1], sys.argv[2]
tier = sys.argv[3] if len(sys.argv) > 3 else "quick"
mod = importlib.import_module(f"checks.{pid.lower()}")
check = mod.build()
clause = [c for c in check.clauses if c.name == cname][0]
def run(i):
    case = clause.case_at(i, tier)
    try:
        clause.oracle(case)
        return None
    except Violation as v:
        return (v.sig, v.detail)
if __name__ == "__main__":
    with mp.get_context("fork").Pool(16) as pool:
        res = pool.map(run, range(clause.size(tier)), chunksize=1)
    seen = {}
    for r in res:
        if r:
            seen.setdefault(r[0], []).append(r[1])
    for sig, ds in sorted(seen.items()):
        print(f"{sig}: {len(ds)} cases; e.g. {ds[0][:260]}")
    print(len([r for r in res if r]), "failing of", len(res))
