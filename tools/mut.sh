#!/bin/bash
# usage: tools/mut.sh <patch.diff> <ID> [<ID>...]     (env: TIER=quick|thorough, NOTESTS=1, VERIF_SEED)
# Copies /repo to a scratch directory outside /repo and /verif, applies the patch, runs the repo tests and the
# given checks against the copy (VERIF_REPO), prints one summary line per check, removes the copy.
here="$(cd "$(dirname "$0")/.." && pwd)"
patch="$(realpath "$1")"; shift
scratch="$(mktemp -d /tmp/amshan-mut.XXXXXX)"
trap 'rm -rf "$scratch"' EXIT
rsync -a --exclude .git --exclude __pycache__ --exclude '*.egg-info' /repo/ "$scratch/"
if ! (cd "$scratch" && patch -p1 -s < "$patch"); then echo "MUT $(basename "$patch"): patch does not apply"; exit 3; fi
tests="skipped"
if [ -z "$NOTESTS" ]; then
  if (cd "$scratch" && PYTHONPATH="$scratch" PYTHONDONTWRITEBYTECODE=1 timeout 600 /venv/bin/python -m pytest -q -p no:cacheprovider -x >/dev/null 2>&1); then tests="pass"; else tests="FAIL"; fi
fi
for id in "$@"; do
  out="$(VERIF_REPO="$scratch" VERIF_NO_EVIDENCE=1 timeout 1800 "$here/check" "$id" --tier "${TIER:-quick}" 2>&1)"; rc=$?
  v="$(echo "$out" | grep -m1 '^violation:' | cut -c1-220)"
  echo "MUT $(basename "$patch") tests=$tests check=$id rc=$rc $v"
done
