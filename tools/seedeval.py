#!/venv/bin/python
"""usage: seedeval.py <worktree> <PID> [extra check ids...]
For every <worktree>/seed/<n>/: confirm (apply -> repo tests pass -> demo exits 1; revert -> demo exits 0), then run the
property's check (quick tier) against the patched worktree (VERIF_REPO) and store everything under /verif/seeded/<PID>-<n>/."""
import json, os, shutil, subprocess, sys, time

HERE = os.path.dirname(os.path.dirname(os.path.abspath(__file__)))
wt, pid_arg = sys.argv[1], sys.argv[2]
extra = sys.argv[3:]
env = dict(os.environ, PYTHONPATH=wt, PYTHONDONTWRITEBYTECODE="1")


def sh(cmd, **kw):
    return subprocess.run(cmd, shell=True, capture_output=True, text=True, timeout=kw.pop("timeout", 900), **kw)


def git(*a):
    return subprocess.run(["git", "-C", wt, *a], capture_output=True, text=True)


for n in sorted(os.listdir(os.path.join(wt, "seed"))):
    d = os.path.join(wt, "seed", n)
    patch = os.path.join(d, "patch.diff")
    if not os.path.exists(patch):
        continue
    pid = pid_arg
    if pid_arg == "auto":
        import re

        m = re.search(r"C\d\d", open(os.path.join(d, "property.txt")).read())
        pid = m.group(0)
    git("checkout", "--", "han")
    meta = {"property": pid, "seed": os.environ.get("SEED_PREFIX", "") + n, "source": "independent sub-agent given only the property text and a scratch worktree"}
    r0 = sh(f"cd {wt} && timeout 420 /venv/bin/python seed/{n}/demo.py", env=env)
    meta["demo_on_clean_head_exit"] = r0.returncode
    a = git("apply", patch)
    meta["applies"] = a.returncode == 0
    t = sh(f"cd {wt} && timeout 600 /venv/bin/python -m pytest -q -p no:cacheprovider 2>&1 | tail -1", env=env)
    meta["repo_tests_with_patch"] = t.stdout.strip()
    r1 = sh(f"cd {wt} && timeout 420 /venv/bin/python seed/{n}/demo.py", env=env)
    meta["demo_with_patch_exit"] = r1.returncode
    meta["demo_with_patch_output"] = (r1.stdout + r1.stderr)[-600:]
    confirmed = meta["applies"] and "124 passed" in meta["repo_tests_with_patch"] and r0.returncode == 0 and r1.returncode == 1
    meta["confirmed"] = confirmed
    meta["checks"] = {}
    if confirmed:
        for cid in [pid] + extra:
            t0 = time.time()
            c = sh(f"cd {HERE} && VERIF_REPO={wt} VERIF_NO_EVIDENCE=1 timeout 1500 ./check {cid} --tier quick", timeout=1600)
            viol = [l for l in c.stdout.splitlines() if l.startswith("violation:")]
            meta["checks"][cid] = {"tier": "quick", "seed": os.environ.get("VERIF_SEED", "1"), "exit": c.returncode, "wall_s": round(time.time() - t0, 1), "first_violation": viol[0][:500] if viol else None}
    git("checkout", "--", "han")
    dest = os.path.join(HERE, "seeded", f"{pid}-{os.environ.get('SEED_PREFIX', '')}{n}")
    os.makedirs(dest, exist_ok=True)
    shutil.copy(patch, os.path.join(dest, "patch.diff"))
    shutil.copy(os.path.join(d, "demo.py"), os.path.join(dest, "demo.py"))
    if os.path.exists(os.path.join(d, "notes.md")):
        meta["needs_to_manifest"] = open(os.path.join(d, "notes.md")).read()[:3000]
    meta["what_was_run"] = f"in {wt}: demo on clean HEAD; git apply patch.diff; repo test suite (PYTHONPATH=worktree); demo; ./check {' '.join([pid] + extra)} --tier quick with VERIF_REPO=worktree; git checkout -- han"
    json.dump(meta, open(os.path.join(dest, "meta.json"), "w"), indent=1)
    det = {k: ("CAUGHT" if v["exit"] == 1 else f"missed(rc={v['exit']})") for k, v in meta["checks"].items()}
    print(f"{pid}-{n}: confirmed={confirmed} tests='{meta['repo_tests_with_patch']}' demo clean/patched={r0.returncode}/{r1.returncode} checks={det}")
