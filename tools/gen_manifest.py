#!/venv/bin/python
"""Regenerate /verif/MANIFEST.json from the table below (keeps it valid and consistent)."""
import json, os, sys

HERE = os.path.dirname(os.path.dirname(os.path.abspath(__file__)))
ALL = [f"C{i:02d}" for i in range(1, 21)]

# pid -> (level, technique, level text, level_note, design_ref)
CHECKS = {}

def add(pid, level, technique, text, note, ref):
    CHECKS[pid] = dict(level=level, technique=technique, text=text, note=note, ref=ref)

exec(open(os.path.join(HERE, "tools", "manifest_table.py")).read())

def main():
    checks = []
    for pid in ALL:
        if pid not in CHECKS:
            continue
        c = CHECKS[pid]
        checks.append({
            "property_id": pid,
            "quick_cmd": f"./check {pid} --tier quick",
            "thorough_cmd": f"./check {pid} --tier thorough",
            "evidence_file": f"evidence/{pid}.json",
            "replay_cmd_template": f"./check {pid} --replay {{path}}",
            "engine": "hypothesis+enumeration",
            "level_claimed": {"category": c["level"], "text": c["text"], "design_ref": c["ref"]},
            "level_note": c["note"],
            "technique": c["technique"],
        })
    na = [{"property_id": p, "reason": NOT_APPLICABLE.get(p, "check not built yet in this session; no claim made")} for p in ALL if p not in CHECKS]
    man = {
        "version": 1,
        "setup_cmd": "./setup.sh",
        "hooks": {
            "guard": "AMSHAN_VERIF",
            "enable": "no source hooks exist: checks import han from /repo's working tree in a fresh interpreter (PYTHONPATH=/repo, fresh PYTHONPYCACHEPREFIX); AMSHAN_VERIF=1 is exported by ./check but nothing in /repo reads it",
            "baseline_off_cmd": "cd /repo && /venv/bin/python -m pytest -ra -q -p no:cacheprovider --timeout=900 --continue-on-collection-errors",
            "source_commits": [],
            "add_only": True,
        },
        "engines": [
            {"name": "hypothesis+enumeration", "path": "vlib/runner.py", "serves_properties": sorted(CHECKS), "kind_free_text": "Hypothesis 6.168 strategies sharded over 16 forked workers + exhaustive enumeration of small finite sub-domains; explicit oracles per clause; shrunk failures become JSON replay files"},
            {"name": "atheris", "path": "fuzz/target.py", "serves_properties": ["C14", "C15"], "kind_free_text": "atheris 3.1 / libFuzzer coverage-guided campaigns (han/ instrumented) through the same oracles as the Hypothesis clauses; run by vlib/fuzzrun.py as FuzzClause, crash inputs re-confirmed deterministically"},
            {"name": "virtual-time asyncio loop", "path": "vlib/vtloop.py", "serves_properties": ["C17", "C18"], "kind_free_text": "SelectorEventLoop subclass whose selector advances a virtual clock; per-iteration hook for close() injection; fake connection factory/transport; busy-loop and quiescence detection"},
        ],
        "checks": checks,
        "not_applicable": na,
        "notes": NOTES,
    }
    with open(os.path.join(HERE, "MANIFEST.json"), "w") as fh:
        json.dump(man, fh, indent=1)
    try:
        import jsonschema
        jsonschema.validate(man, json.load(open("/root/.vp/MANIFEST.schema.json")))
        print("manifest valid;", len(checks), "checks,", len(na), "not claimed")
    except ImportError:
        print("manifest written (jsonschema not available here);", len(checks), "checks")

main()
