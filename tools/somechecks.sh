#!/bin/bash
# usage: tools/somechecks.sh <tier> <seed> <ID>...   - like allchecks.sh for a subset of checks (VERIF_NO_EVIDENCE=1 unless KEEP_EVIDENCE=1)
here="$(cd "$(dirname "$0")/.." && pwd)"; cd "$here"
tier="$1"; seed="$2"; shift 2
for id in "$@"; do
  s=$(date +%s.%N)
  if [ -n "$KEEP_EVIDENCE" ]; then out=$(VERIF_SEED=$seed ./check $id --tier $tier 2>&1); else out=$(VERIF_SEED=$seed VERIF_NO_EVIDENCE=1 ./check $id --tier $tier 2>&1); fi; rc=$?
  e=$(date +%s.%N)
  printf "seed=%s %s rc=%s %.1fs %s\n" "$seed" "$id" "$rc" "$(echo "$e - $s" | bc)" "$(echo "$out" | grep -m1 -E '^(violation|HARNESS)' | cut -c1-200)"
done
