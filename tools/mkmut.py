#!/venv/bin/python
"""usage: mkmut.py <out.patch> <repo-relative file> <old text> <new text>  - build a -p1 patch replacing the first occurrence."""
import difflib, sys, os
out, rel, old, new = sys.argv[1:5]
src = open(os.path.join("/repo", rel)).read()
old = old.encode().decode("unicode_escape"); new = new.encode().decode("unicode_escape")
assert src.count(old) >= 1, "old text not found"
dst = src.replace(old, new, 1)
diff = "".join(difflib.unified_diff(src.splitlines(True), dst.splitlines(True), f"a/{rel}", f"b/{rel}"))
os.makedirs(os.path.dirname(out), exist_ok=True)
open(out, "w").write(diff)
print(out, "ok")
