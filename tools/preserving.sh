#!/bin/bash
# Runs ALL checks against every property-preserving patch (mutants/preserving/*.patch): every check must stay quiet (rc=0).
here="$(cd "$(dirname "$0")/.." && pwd)"; cd "$here"
for p in mutants/preserving/*.patch; do
  scratch="$(mktemp -d /tmp/amshan-pres.XXXXXX)"
  rsync -a --exclude .git --exclude __pycache__ --exclude '*.egg-info' /repo/ "$scratch/"
  if ! (cd "$scratch" && patch -p1 -s < "$here/$p"); then echo "PRES $(basename $p): does not apply"; rm -rf "$scratch"; continue; fi
  t=$( (cd "$scratch" && PYTHONPATH="$scratch" PYTHONDONTWRITEBYTECODE=1 timeout 600 /venv/bin/python -m pytest -q -p no:cacheprovider 2>&1 | tail -1) )
  bad=""
  for i in $(seq -w 1 20); do
    out=$(VERIF_REPO="$scratch" VERIF_NO_EVIDENCE=1 timeout 1800 ./check C$i --tier quick 2>&1); rc=$?
    [ $rc -ne 0 ] && bad="$bad C$i(rc=$rc: $(echo "$out" | grep -m1 -E '^violation|HARNESS' | cut -c1-160))"
  done
  echo "PRES $(basename $p) tests='$t' alarms:${bad:- none}"
  rm -rf "$scratch"
done
