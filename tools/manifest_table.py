NOTES = "All checks: ./check <ID> [--tier quick|thorough] [--replay FILE]; VERIF_SEED seeds every Hypothesis shard; VERIF_REPO (default /repo) selects the tree; exit 0 held / 1 VIOLATION / 2 harness error. Genuine defects found were repaired by fix: commits in /repo and are listed as fixed: in KNOWN_FINDINGS.txt."
NOT_APPLICABLE = {}

add("C20", "exploration", "property-based testing: exhaustive boundary grid + Hypothesis round-trip / parse oracle",
    "Generated-input search: every presence pattern x boundary value tuple (200 704) enumerated, plus random tuples, pairs for ==/hash, and a malformed-string grammar; oracle = harness formatter/parser written from the syntax. Finds formatting/parsing bugs on any group combination; cannot prove absence outside the grid.",
    "Trusts the harness's own formatter of the reduced/six-part syntax; round trip only asserted where the property states it (optional groups None or non-zero).", "DESIGN.md §4 C20")

add("C03", "exploration", "exhaustive enumeration of the step function (2^24) + Hypothesis differential testing against a bit-serial reference",
    "All 2^24 (register, octet) steps and all 2^16 residue checks are enumerated through the public API and compared with a bit-serial RFC 1662 reference; byte strings/windows/trailer variants by Hypothesis. The step sub-domain is complete; whole-string behaviour follows by induction and is additionally sampled.",
    "Trusts vlib/ref_fcs.py (bit-serial, table-free) as the definition; induction assumes update() has no state besides the register.", "DESIGN.md §4 C03")
add("C01", "exploration", "property-based testing: generated frame/defect/noise streams x splittings x 4 configs against reference validity, field and embedding predicates",
    "Hypothesis-generated streams of good, defective (bit flip, truncation incl. right after the HCS, wrong length with recomputed checksums, extra octets) and noise tokens, split arbitrarily, for all four reader configurations; every returned frame is judged by an independent bit-serial FCS/length predicate (both directions), exact field octets, and an optimal greedy embedding of the frames into the flag-delimited input. Bounded search, no absence proof.",
    "No reference reader (C01 does not say which frames are returned); trusts vlib/ref_hdlc.py predicates; accessor comparison only when the frame is long enough to contain the fields.", "DESIGN.md §4 C01")
add("C02", "exploration", "property-based testing: round trip (build well-formed frames -> reader) over splittings and configurations",
    "Hypothesis builds clean streams of 1..6 well-formed frames inside each configuration's stated domain (by construction), including 2047-octet frames, 7E/7D-dense payloads and 1..4-octet addresses, splits them arbitrarily and requires the reader to return exactly the sent frames, valid, with the built fields. Bounded search.",
    "Expected fields derive from the harness's frame builder / ref_fields; stuffed streams may escape up to three extra octet values.", "DESIGN.md §4 C02")
add("C06", "exploration", "metamorphic property-based testing + exhaustive enumeration of short token sequences with every single cut",
    "Single-call output is compared with bytewise, every-single-cut and random splittings: Hypothesis streams (C01 generator and 7E/7D-dense noise) and ALL token sequences up to length 5/6 over a 10-token alphabet x 4 configurations x every single cut. Exhaustive for that token space only.",
    "Metamorphic relation only (no absolute oracle); the single-call run is the reference.", "DESIGN.md §4 C06")
add("C04", "exploration", "property-based testing: mutation of generated readouts against an independent CRC-16/ARC + identification oracle",
    "Generated IEC 62056-21 readouts (plus constructed CRC=0x0000 readouts) are mutated (bit flips, checksum replaced by 0000 / +-1 / swapped / drawn / case variants, checksum removed, identification damaged), delivered directly and via the reader with random splittings, and judged by a bit-serial CRC and the harness's identification pattern: valid => ident ok and checksum == CRC; wrong checksum => not valid; untouched => valid; payload exact.",
    "Checksum claim only when the last line is '!' + exactly 4 hex digits; is_valid raising is left to C14; permissive identification pattern.", "DESIGN.md §4 C04")
add("C05", "exploration", "property-based testing: round trip of long generated readout streams over adversarial chunkings",
    "Streams of up to 200 readouts / hundreds of KiB, expanded deterministically from drawn parameters, fed in single, bytewise, random and fixed-size chunkings (1..64 KiB, offsets, readout-length+-k) - the history quantifier the unit tests lack; output must equal the sent readouts, all valid.",
    "Readouts < 8000 bytes with lines < 200 bytes; data from the harness grammar (no '/' or '!' inside lines).", "DESIGN.md §4 C05")
add("C14", "exploration", "property-based fuzzing: structured noise tokens x splittings through every reader/protocol; no-exception + post-noise usability oracle",
    "Hypothesis noise built from structural bytes, non-ASCII, malformed identification/end lines and slices of genuine messages is fed through the HDLC reader (4 configs), the P1 reader and both protocol classes with four candidate lists; any escaping exception, non-list result or failing message accessor is a violation (bucketed by exception type and innermost han function), and a clean tail must then be delivered per C16.",
    "Only exceptions escaping public calls count; logging disabled; bounded search.", "DESIGN.md §4 C14")
add("C16", "exploration", "property-based testing: noise-prefix families + sequence-numbered clean tails, bounded-loss oracle",
    "12 HDLC and 14 P1 noise families (parameterised, seeded) followed by 2..40 clean sequence-numbered messages, all splittings and configurations; the must-deliver set stated by C16 (all but the first; without stuffing those starting > 2047+len after the noise) must come out exactly once, valid, in order.",
    "Clean frames are flag-free without stuffing; noise directly precedes the first opening flag / '/'.", "DESIGN.md §4 C16")
add("C19", "exploration", "property-based testing of long call histories: drawn repeating blocks and a pattern grid, deep-size invariant sampled between calls",
    "Hypothesis-drawn (prefix, repeating block, chunk size, configuration) streams of 96-384 KiB plus a grid of 23 hand-written endless patterns x 6-10 chunk sizes at 1 MiB (quick) / 16 MiB (thorough); invariant: deep size of the reader after read() <= constant + 2 x chunk, independent of bytes fed.",
    "Deep size via sys.getsizeof over gc-reachable objects; a bounded experiment cannot prove a bound.", "DESIGN.md §4 C19")
add("C11", "exploration", "property-based testing: grammar-generated P1 data blocks, round-trip parse oracle and exact-rational decode oracle",
    "Hypothesis generates data blocks and identification lines from the IEC 62056-21 grammar; parse must return exactly the transmitted data sets; decoding is compared with Fraction arithmetic (k-units within [exact-1, exact], other units correctly rounded, clock and text verbatim); decode_p1_readout, decode_p1_readout_content and AutoDecoder must agree.",
    "Field names from the harness's own table; identification text without trailing blank/leading backslash; bounded search.", "DESIGN.md §4 C11")
add("C10", "exploration", "property-based testing: encode (hand-written COSEM date-time encoder) -> decode round trip in every syntactic position",
    "Hypothesis date-times (all fields, hundredths, deviation incl. boundaries and unspecified, all status octets) are encoded by the harness and placed in 11 message positions covering the six places a date-time is accepted; the decoded value is compared field-wise and by UTC offset with the harness's expectation.",
    "Surrounding message content fixed and well-formed; year..second specified.", "DESIGN.md §4 C10")
add("C07", "exploration", "property-based testing: hand-written COSEM encoder -> Aidon decoder round trip with exact-rational scaling oracle",
    "Documented Aidon layouts and arbitrary subsets/orders, registers over the full range of each transmitted type, scalers -6..6; expected dictionary computed with Fraction arithmetic and the harness's own OBIS->name table; frame and body decoding must agree.",
    "Harness encoder and name table are the trusted base; scalers beyond -6..6 not explored.", "DESIGN.md §4 C07")
add("C08", "exploration", "property-based testing: hand-written encoder -> Kaifa decoder round trip, positional and OBIS-tagged layouts",
    "Five positional layouts and the Swedish OBIS-tagged layout with arbitrary u32 registers (pairwise distinct so swapped positions cannot cancel), strings and date-times; expected values by position / OBIS with exact quotient equality; clock precedence (list element over APDU) checked.",
    "Printable-ASCII identification strings; positional layouts always carry an APDU date-time.", "DESIGN.md §4 C08")
add("C09", "exploration", "property-based testing: hand-written encoder -> Kamstrup decoder round trip incl. CT detection and null padding",
    "10-second and hourly lists (1/3 phase), full-range registers, null-data padding after any element, CT / non-CT / near-miss meter type numbers; currents within a stated 4*2^-53 relative tolerance of reg/100 (reg/1000 for CT), energies exactly x10, frame clock = APDU date-time.",
    "Only documented OBIS codes are sent; tolerance stated because the documented computation is a single float multiplication.", "DESIGN.md §4 C09")
