NOTES = "All checks: ./check <ID> [--tier quick|thorough] [--replay FILE]; VERIF_SEED seeds every Hypothesis shard; VERIF_REPO (default /repo) selects the tree; exit 0 held / 1 VIOLATION / 2 harness error. Genuine defects found were repaired by fix: commits in /repo and are listed as fixed: in KNOWN_FINDINGS.txt."
NOT_APPLICABLE = {}

add("C20", "exploration", "property-based testing: exhaustive boundary grid + Hypothesis round-trip / parse oracle",
    "Generated-input search: every presence pattern x boundary value tuple (200 704) enumerated, plus random tuples, pairs for ==/hash, and a malformed-string grammar; oracle = harness formatter/parser written from the syntax. Finds formatting/parsing bugs on any group combination; cannot prove absence outside the grid.",
    "Trusts the harness's own formatter of the reduced/six-part syntax; round trip only asserted where the property states it (optional groups None or non-zero).", "DESIGN.md §4 C20")

add("C03", "exploration", "exhaustive enumeration of the step function (2^24) + Hypothesis differential testing against a bit-serial reference",
    "All 2^24 (register, octet) steps and all 2^16 residue checks are enumerated through the public API and compared with a bit-serial RFC 1662 reference; byte strings/windows/trailer variants by Hypothesis. The step sub-domain is complete; whole-string behaviour follows by induction and is additionally sampled.",
    "Trusts vlib/ref_fcs.py (bit-serial, table-free) as the definition; induction assumes update() has no state besides the register.", "DESIGN.md §4 C03")
add("C01", "exploration", "property-based testing: generated frame/defect/noise streams x splittings x 4 configs against reference validity, field and embedding predicates",
    "Hypothesis-generated streams of good, defective (bit flip, truncation incl. right after the HCS, wrong length with recomputed checksums, extra octets) and noise tokens, split arbitrarily, for all four reader configurations; every returned frame is judged by an independent bit-serial FCS/length predicate (both directions), exact field octets, and an optimal greedy embedding of the frames into the flag-delimited input. Bounded search, no absence proof.",
    "No reference reader (C01 does not say which frames are returned); trusts vlib/ref_hdlc.py predicates; accessor comparison only when the frame is long enough to contain the fields.", "DESIGN.md §4 C01")
add("C02", "exploration", "property-based testing: round trip (build well-formed frames -> reader) over splittings and configurations",
    "Hypothesis builds clean streams of 1..6 well-formed frames inside each configuration's stated domain (by construction), including 2047-octet frames, 7E/7D-dense payloads and 1..4-octet addresses, splits them arbitrarily and requires the reader to return exactly the sent frames, valid, with the built fields. Bounded search.",
    "Expected fields derive from the harness's frame builder / ref_fields; stuffed streams may escape up to three extra octet values.", "DESIGN.md §4 C02")
add("C06", "exploration", "metamorphic property-based testing + exhaustive enumeration of short token sequences with every single cut",
    "Single-call output is compared with bytewise, every-single-cut and random splittings: Hypothesis streams (C01 generator and 7E/7D-dense noise) and ALL token sequences up to length 5/6 over a 10-token alphabet x 4 configurations x every single cut. Exhaustive for that token space only.",
    "Metamorphic relation only (no absolute oracle); the single-call run is the reference.", "DESIGN.md §4 C06")
add("C04", "exploration", "property-based testing: mutation of generated readouts against an independent CRC-16/ARC + identification oracle",
    "Generated IEC 62056-21 readouts (plus constructed CRC=0x0000 readouts) are mutated (bit flips, checksum replaced by 0000 / +-1 / swapped / drawn / case variants, checksum removed, identification damaged), delivered directly and via the reader with random splittings, and judged by a bit-serial CRC and the harness's identification pattern: valid => ident ok and checksum == CRC; wrong checksum => not valid; untouched => valid; payload exact.",
    "Checksum claim only when the last line is '!' + exactly 4 hex digits; is_valid raising is left to C14; permissive identification pattern.", "DESIGN.md §4 C04")
add("C05", "exploration", "property-based testing: round trip of long generated readout streams over adversarial chunkings",
    "Streams of up to 200 readouts / hundreds of KiB, expanded deterministically from drawn parameters, fed in single, bytewise, random and fixed-size chunkings (1..64 KiB, offsets, readout-length+-k) - the history quantifier the unit tests lack; output must equal the sent readouts, all valid.",
    "Readouts < 8000 bytes with lines < 200 bytes; data from the harness grammar (no '/' or '!' inside lines).", "DESIGN.md §4 C05")
add("C14", "exploration", "property-based fuzzing: structured noise tokens x splittings through every reader/protocol; no-exception + post-noise usability oracle",
    "Hypothesis noise built from structural bytes, non-ASCII, malformed identification/end lines and slices of genuine messages is fed through the HDLC reader (4 configs), the P1 reader and both protocol classes with four candidate lists; any escaping exception, non-list result or failing message accessor is a violation (bucketed by exception type and innermost han function), and a clean tail must then be delivered per C16.",
    "Only exceptions escaping public calls count; logging disabled; bounded search.", "DESIGN.md §4 C14")
add("C16", "exploration", "property-based testing: noise-prefix families + sequence-numbered clean tails, bounded-loss oracle",
    "12 HDLC and 14 P1 noise families (parameterised, seeded) followed by 2..40 clean sequence-numbered messages, all splittings and configurations; the must-deliver set stated by C16 (all but the first; without stuffing those starting > 2047+len after the noise) must come out exactly once, valid, in order.",
    "Clean frames are flag-free without stuffing; noise directly precedes the first opening flag / '/'.", "DESIGN.md §4 C16")
add("C19", "exploration", "property-based testing of long call histories: drawn repeating blocks and a pattern grid, deep-size invariant sampled between calls",
    "Hypothesis-drawn (prefix, repeating block, chunk size, configuration) streams of 96-384 KiB plus a grid of 23 hand-written endless patterns x 6-10 chunk sizes at 1 MiB (quick) / 16 MiB (thorough); invariant: deep size of the reader after read() <= constant + 2 x chunk, independent of bytes fed.",
    "Deep size via sys.getsizeof over gc-reachable objects; a bounded experiment cannot prove a bound.", "DESIGN.md §4 C19")
add("C11", "exploration", "property-based testing: grammar-generated P1 data blocks, round-trip parse oracle and exact-rational decode oracle",
    "Hypothesis generates data blocks and identification lines from the IEC 62056-21 grammar; parse must return exactly the transmitted data sets; decoding is compared with Fraction arithmetic (k-units within [exact-1, exact], other units correctly rounded, clock and text verbatim); decode_p1_readout, decode_p1_readout_content and AutoDecoder must agree.",
    "Field names from the harness's own table; identification text without trailing blank/leading backslash; bounded search.", "DESIGN.md §4 C11")
add("C10", "exploration", "property-based testing: encode (hand-written COSEM date-time encoder) -> decode round trip in every syntactic position",
    "Hypothesis date-times (all fields, hundredths, deviation incl. boundaries and unspecified, all status octets) are encoded by the harness and placed in 11 message positions covering the six places a date-time is accepted; the decoded value is compared field-wise and by UTC offset with the harness's expectation.",
    "Surrounding message content fixed and well-formed; year..second specified.", "DESIGN.md §4 C10")
add("C07", "exploration", "property-based testing: hand-written COSEM encoder -> Aidon decoder round trip with exact-rational scaling oracle",
    "Documented Aidon layouts and arbitrary subsets/orders, registers over the full range of each transmitted type, scalers -6..6; expected dictionary computed with Fraction arithmetic and the harness's own OBIS->name table; frame and body decoding must agree.",
    "Harness encoder and name table are the trusted base; scalers beyond -6..6 not explored.", "DESIGN.md §4 C07")
add("C08", "exploration", "property-based testing: hand-written encoder -> Kaifa decoder round trip, positional and OBIS-tagged layouts",
    "Five positional layouts and the Swedish OBIS-tagged layout with arbitrary u32 registers (pairwise distinct so swapped positions cannot cancel), strings and date-times; expected values by position / OBIS with exact quotient equality; clock precedence (list element over APDU) checked.",
    "Printable-ASCII identification strings; positional layouts always carry an APDU date-time.", "DESIGN.md §4 C08")
add("C09", "exploration", "property-based testing: hand-written encoder -> Kamstrup decoder round trip incl. CT detection and null padding",
    "10-second and hourly lists (1/3 phase), full-range registers, null-data padding after any element, CT / non-CT / near-miss meter type numbers; currents within a stated 4*2^-53 relative tolerance of reg/100 (reg/1000 for CT), energies exactly x10, frame clock = APDU date-time.",
    "Only documented OBIS codes are sent; tolerance stated because the documented computation is a single float multiplication.", "DESIGN.md §4 C09")
add("C15", "exploration", "property-based fuzzing: mutation neighbourhood of genuine messages + ASCII fragments, with deterministic resource budgets (sys.monitoring)",
    "Random bytes, EVERY truncation and drawn 1..5-op structured mutations of 41 genuine messages, and P1 token fragments (also repeated to 6 KB), each with every remembered-decoder state and four entry points; the call must return dict/None, raise nothing, and stay within call/line-event budgets and a tracemalloc bound - budgets abort a non-terminating decode in milliseconds.",
    "Budgets are deterministic counters with x40 headroom, not proofs of a polynomial bound; time inside C code is not counted (30 s backstop = inconclusive).", "DESIGN.md §4 C15")
add("C12", "exploration", "model-based testing: exhaustive short histories + Hypothesis operation lists against a reference model of the decoder selection",
    "All 14 424 histories of length <=3 over a 24-payload sub-pool and Hypothesis histories up to 30 steps; reference model built from the seven individual decoder functions (cached) with the remembered-decoder state; invariant checked after every step; decode_message compared with a twin's decode_message_payload; generated genuine messages must be decoded by their own decoder with the C07-C09 values.",
    "The model reuses han's individual decoders (their values are C07-C09/C11's subject); histories drawn as one list value.", "DESIGN.md §4 C12")
add("C13", "exploration", "differential property-based testing: protocol queue vs twin readers over generated streams, splittings and candidate lists",
    "Mixed HDLC/P1/noise streams x splittings x five candidate-list shapes x both protocol classes; twin readers fed the same chunks give the expected per-chunk queue content from the selection chunk on, nothing before; clean C02/C05-domain streams must deliver every non-empty payload for either candidate order.",
    "Tie-break between candidates that become valid in the same chunk is not asserted; ambiguous HDLC streams (a P1 reader alone finds a readout) are skipped in the clean clause.", "DESIGN.md §4 C13")
add("C17", "fault_enumeration", "schedule / fault enumeration on a deterministic virtual-time event loop with close() injected at every loop iteration; trace invariants",
    "Per-attempt fault scripts (fail/ok x latency x connection lifetime), drawn by Hypothesis and enumerated over a grid; for each script close() is injected before every event-loop iteration, inside every sleep/latency interval and at every event time, plus 50..3000-cycle runs for the task bound; invariants on the recorded trace decide single connection, ordering, reconnection, bounded tasks and a clean stop.",
    "Harness-owned SelectorEventLoop subclass + fake transport/factory; real transports, threads and other loop implementations are outside the model.", "DESIGN.md §4 C17")
add("C18", "fault_enumeration", "exhaustive enumeration of failure/reset sequences + fault scripts on the virtual-time loop against an explicit timing model",
    "All failure()/reset() sequences up to length 14 x 7 caps (and random ones to length 200) against min(2^(n-1), max_delay); all outcome/loss scripts up to length 6/7 x 4 configurations and Hypothesis scripts, with virtual timestamps of attempts checked against the back-off lower/upper bounds and the double-loss breaker.",
    "Virtual clock substituted for the manager's wall clock from outside; slack 1e-6 s; no upper bound asserted after a loss.", "DESIGN.md §4 C18")

# --- additions made while strengthening the checks against independently seeded changes (DESIGN.md section 9) -------------------
_ALSO = {
    "C01": "Also: frames with wrong HCS but right FCS/length, 1-8 octet addresses, check sequences 00 00, forced last octet 7E/7D, embedded frames; accessor-order independence; returned lists and headers kept by the caller stay intact.",
    "C02": "Also: 2-3 reader instances fed alternately; virtual wall-clock gaps between calls; returned lists kept by the caller; embedded frames, special check sequences.",
    "C03": "Also: call histories over bytes / in-place mutated bytearray buffers incl. failing calls; windows up to 192 KiB whose register is 0x0000 at 2^k block boundaries.",
    "C04": "Also: reader history before the readout, accessor order before is_valid, 8-bit / class-boundary characters and up to 8 escapes in the identification line, LF-only readouts, checksums of transformed copies.",
    "C05": "Also: two interleaved reader instances, virtual clock gaps, up to 3000 minimal readouts per call, data lines of 1000-4000 characters.",
    "C06": "Also: frames around/beyond 2047 octets, same-length frames in a row, last octet 7E/7D, frames without room for control/HCS, 7D 7D pairs at the limit with the cut between them; returned lists re-examined after later calls; virtual clock gaps.",
    "C07": "Also: other decoders run first in the same process, results scribbled on by the caller and decoded again, process time zone switched, full 7-bit ASCII and 255-character texts, two decodes interleaved on two threads at a drawn line.",
    "C08": "Also: preludes, scribbled results, time zones, layer-meaningful register values and texts, all-ASCII lists, texts up to 255 characters, deterministic thread interleavings.",
    "C09": "Also: preludes, scribbled results, time zones, permuted element order, lists without meter type, long null padding, 255-character texts, deterministic thread interleavings.",
    "C10": "Also: a twin date-time (same civil fields, or the same instant with another deviation) decoded just before, decoding on a non-main thread, process time zone switched.",
    "C11": "Also: blocks of up to 3000 data sets (one line or many), maximum value/unit lengths, process time zone switched with non-existent local times, other decoders (also with unnamed OBIS codes) run first, results scribbled on.",
    "C12": "Also: a bystander AutoDecoder, invalid-but-decodable messages, segmented frames, 2 KiB / 10 KiB genuine payloads, byte-identical repeats, runs of up to 300 rejected payloads, results scribbled on; genuine lists with register values and texts that are meaningful to another layer.",
    "C13": "Also: candidates as list or tuple, the caller's list reused for a second protocol, protocols built by han.tcp_connection_factory, up to 1500 messages queued before the queue is read, virtual clock gaps.",
    "C14": "Also: every protocol again after a reader was selected, DEBUG logging on/off per case and DEBUG configured before import (fresh interpreters), damaged identification lines, long single-octet runs, atheris campaigns.",
    "C15": "Also: CPU-time budget for time spent in C code, worker heartbeat so a call that never returns is reported (sig hang), structures nested to depth 100, digit runs, every short payload enumerated, atheris campaigns.",
    "C16": "Also: bystander reader instances, near-maximum stuffed frames, 4-octet addresses and zero-HCS frames among the clean frames, readouts just below 8191 bytes with read boundaries in the end line, 19 P1 noise families.",
    "C17": "Also: loss where closing the dead transport raises, a streak of 1200/5000 failed attempts, busy-loop detection, task high-water mark compared across run lengths, an unrelated second manager on the same loop.",
    "C18": "Also: failures raised as eight exception types, a second strategy instance used in between, streaks of 1030-5000 failure() calls.",
    "C19": "Also: unfinished message followed by 160 KiB of each of the 256 octet values, all-different message streams, overrun frame followed by flags, segmented frames.",
    "C20": "Also: object histories (create/parse/filter_group_cde/copy/hash in any order), decorated separators in the malformed grammar, carry pairs.",
}
for _pid, _txt in _ALSO.items():
    CHECKS[_pid]["text"] = CHECKS[_pid]["text"] + " " + _txt
