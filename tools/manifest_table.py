NOTES = "All checks: ./check <ID> [--tier quick|thorough] [--replay FILE]; VERIF_SEED seeds every Hypothesis shard; VERIF_REPO (default /repo) selects the tree; exit 0 held / 1 VIOLATION / 2 harness error. Genuine defects found were repaired by fix: commits in /repo and are listed as fixed: in KNOWN_FINDINGS.txt."
NOT_APPLICABLE = {}

add("C20", "exploration", "property-based testing: exhaustive boundary grid + Hypothesis round-trip / parse oracle",
    "Generated-input search: every presence pattern x boundary value tuple (200 704) enumerated, plus random tuples, pairs for ==/hash, and a malformed-string grammar; oracle = harness formatter/parser written from the syntax. Finds formatting/parsing bugs on any group combination; cannot prove absence outside the grid.",
    "Trusts the harness's own formatter of the reduced/six-part syntax; round trip only asserted where the property states it (optional groups None or non-zero).", "DESIGN.md §4 C20")
