"""C02 - HDLC: every well-formed frame on a clean stream is delivered once, in order."""
from __future__ import annotations

import logging

from hypothesis import strategies as st

from han import hdlc
from vlib import gen_hdlc as G
from vlib.ref_hdlc import ESC, FLAG, ref_fields
from vlib.runner import Check, HypClause, Info, fail, guarded

logging.disable(logging.CRITICAL)


def compose(stuffing, noise, frames, gaps, closing, extra):
    """Stream = flag-free noise + for each frame: 1..n flags + frame on the wire; + closing flags."""
    s = bytearray(noise)
    spans = []
    for fr, g in zip(frames, gaps):
        s += bytes([FLAG]) * g
        w = G.wire(fr, stuffing, extra)
        spans.append((len(s), len(s) + len(w)))
        s += w
    s += bytes([FLAG]) * closing
    return bytes(s), spans


def in_domain(frame: bytes, stuffing: bool, abort: bool) -> bool:
    if stuffing:
        return True
    f = ref_fields(frame)
    hl = 2 + len(f["destination_address"]) + len(f["source_address"]) + 3
    if FLAG in frame[:hl]:
        return False
    if abort:
        for i, o in enumerate(frame):
            if o == ESC and (i + 1 == len(frame) or frame[i + 1] == FLAG):
                return False
    return True


def oracle(case) -> Info:
    stuffing, abort, noise, frames, gaps, closing, extra, cuts = case
    frames = [bytes(f) for f in frames]
    cuts = tuple(cuts)
    assert FLAG not in noise and len(gaps) == len(frames) and all(g >= 1 for g in gaps) and closing >= 1
    assert all(in_domain(f, stuffing, abort) for f in frames), "generator left the C02 domain"
    stream, spans = compose(stuffing, noise, frames, gaps, closing, frozenset(extra))
    reader = hdlc.HdlcFrameReader(use_octet_stuffing=stuffing, use_abort_sequence=abort)
    got = []
    from vlib import fakeclock

    chunks_ = G.split(stream, cuts)
    gap_pattern = ("none", "mixed", "long", "short")[(len(stream) + closing) % 4] if len(chunks_) <= 4000 else "none"
    gaps = fakeclock.gaps_for(len(chunks_), gap_pattern, len(stream))
    kept = []
    with fakeclock.FakeClock() as clk:  # the harness owns the clock: virtual seconds pass between the calls
        for chunk, gap in zip(chunks_, gaps):
            clk.advance(gap)
            lst = guarded(reader.read, chunk, what="HdlcFrameReader.read")
            kept.append((lst, list(lst)))
    for k, (lst, snap) in enumerate(kept):  # a caller may keep every returned list: later calls must not touch it
        if len(lst) != len(snap) or any(a is not b for a, b in zip(lst, snap)):
            fail(f"the list returned by read() call #{k} of {len(kept)} was changed by a later call ({len(snap)} frames then, {len(lst)} now)", sig="returned-list-mutated")
        got.extend(snap)
    got_b = [guarded(lambda fr=fr: fr.as_bytes) for fr in got]
    if got_b != frames:
        # describe the first difference
        for i in range(max(len(got_b), len(frames))):
            a = got_b[i] if i < len(got_b) else None
            e = frames[i] if i < len(frames) else None
            if a != e:
                fail(
                    f"cfg stuffing={stuffing} abort={abort}: sent {len(frames)} frames, got {len(got_b)}; first difference at #{i}: "
                    f"sent {e.hex()[:80] if e else None}(len {len(e) if e else 0}) got {a.hex()[:80] if a else None}(len {len(a) if a else 0})",
                    sig="lost" if len(got_b) < len(frames) else ("dup" if len(got_b) > len(frames) else "altered"),
                )
    for fr, b in zip(got, frames):
        if guarded(lambda fr=fr: fr.is_valid) is not True:
            fail(f"well-formed frame {b.hex()[:80]} (len {len(b)}) reported invalid", sig="invalid")
        f = ref_fields(b)
        h = fr.header
        pay = guarded(lambda fr=fr: fr.payload)
        if (pay or b"") != (f["payload"] or b"") or (f["payload"] and pay is None):
            fail(f"frame {b.hex()[:80]}: payload {pay!r:.80} != {f['payload']!r:.80}", sig="field-payload")
        gotf = (h.destination_address, h.source_address, h.control, h.frame_format_type, h.segmentation, h.frame_length)
        wantf = (f["destination_address"], f["source_address"], f["control"], f["format_type"], f["segmentation"], len(b))
        if gotf != wantf:
            fail(f"frame {b.hex()[:80]}: header fields {gotf!r} != {wantf!r}", sig="field-header")
    cps = G.cut_points(stream, cuts)
    cut_inside = any(a < c < e for (a, e) in spans for c in cps)
    has_max = any(len(f) == 2047 for f in frames)
    has_special = any(FLAG in (ref_fields(f)["payload"] or b"") or ESC in (ref_fields(f)["payload"] or b"") for f in frames)
    long_addr = any(len(ref_fields(f)["destination_address"]) > 2 or len(ref_fields(f)["source_address"]) > 2 for f in frames)
    nt = (len(frames) >= 2 and cut_inside) or has_max or has_special or long_addr
    classes = [f"cfg:{int(stuffing)}{int(abort)}", f"cuts:{cuts[0]}", f"frames:{len(frames)}", f"gaps:{gap_pattern}"]
    for flag, name in ((cut_inside, "cut-inside-frame"), (has_max, "max-length-frame"), (has_special, "payload-has-7E/7D"), (long_addr, "address>2"), (bool(noise), "leading-noise"), (any(ref_fields(f)["header_only"] for f in frames), "header-only")):
        if flag:
            classes.append(name)
    return Info(nontrivial=nt, classes=tuple(classes), sample={"cfg": [stuffing, abort], "frames": [f.hex()[:48] + ("..." if len(f) > 24 else "") for f in frames], "gaps": list(gaps), "cuts": list(cuts)[:2]})


@st.composite
def case_st(draw):
    stuffing, abort = draw(G.config_st)
    n = draw(st.sampled_from([1, 2, 2, 3, 3, 4, 6]))
    big_budget = 2  # at most two large frames per case to bound the cost
    frames = []
    for _ in range(n):
        big = big_budget > 0 and draw(st.integers(0, 3)) == 3
        if big:
            big_budget -= 1
        spec = draw(G.frame_spec_st(big=big, header_only_weight=1))
        _spec, octs = G.repair_for_config(spec, stuffing, abort)
        frames.append(octs)
    gaps = [draw(st.sampled_from([1, 1, 1, 2, 3])) for _ in range(n)]
    closing = draw(st.sampled_from([1, 1, 2]))
    noise = draw(st.one_of(st.just(b""), G.noise_noflag_st))
    extra = tuple(sorted(set(draw(st.lists(st.integers(0, 255), max_size=3))))) if stuffing and draw(st.booleans()) else ()
    return (stuffing, abort, noise, frames, gaps, closing, extra, draw(G.cuts_st()))


from vlib import ctorprobe  # noqa: E402

_CTOR_VARIANTS = ctorprobe.variants(hdlc.HdlcFrameReader, {"use_octet_stuffing", "use_abort_sequence"})  # empty unless the constructor grew parameters


def interleaved_oracle(case) -> Info:
    """Two (or three) readers alive in the same process, each fed its own clean stream, chunks alternating:
    every reader must still deliver exactly its own frames (no state shared between instances)."""
    subcases = [tuple(c) for c in case]
    readers, chunk_lists, sent = [], [], []
    for stuffing, abort, noise, frames, gaps, closing, extra, cuts in subcases:
        frames = [bytes(f) for f in frames]
        stream, _ = compose(stuffing, noise, frames, gaps, closing, frozenset(extra))
        readers.append(hdlc.HdlcFrameReader(use_octet_stuffing=stuffing, use_abort_sequence=abort))
        chunk_lists.append(G.split(stream, tuple(cuts)))
        sent.append(frames)
        if _CTOR_VARIANTS and len(readers) == 1:  # a bystander built with constructor arguments this harness does not know: must not matter to anyone
            ctorprobe.build_bystander(hdlc.HdlcFrameReader, _CTOR_VARIANTS[len(stream) % len(_CTOR_VARIANTS)], stuffing, abort)
    got = [[] for _ in readers]
    for k in range(max(len(c) for c in chunk_lists)):
        for i, r in enumerate(readers):
            if k < len(chunk_lists[i]):
                got[i].extend(guarded(r.read, chunk_lists[i][k], what="HdlcFrameReader.read"))
    for i, (g, s_) in enumerate(zip(got, sent)):
        gb = [fr.as_bytes for fr in g]
        if gb != s_ or not all(fr.is_valid for fr in g):
            fail(
                f"reader #{i} of {len(readers)} interleaved readers (cfg stuffing={subcases[i][0]} abort={subcases[i][1]}): sent {len(s_)} frames, got {len(gb)} "
                f"({sum(1 for a, b in zip(gb, s_) if a == b)} equal, {sum(1 for fr in g if fr.is_valid)} valid); alone the same stream is delivered completely",
                sig="interleaved",
            )
    multi = all(len(c) > 1 for c in chunk_lists)
    return Info(nontrivial=multi, classes=(f"readers:{len(readers)}", "all-chunked" if multi else "some-unsplit"))


@st.composite
def interleaved_case_st(draw):
    return [draw(case_st()) for _ in range(draw(st.sampled_from([2, 2, 3])))]


def build() -> Check:
    return Check(
        pid="C02",
        level="exploration",
        rule=(
            "1..6 well-formed frames (payload lengths 0..2038 incl. forced 2047-octet frames, payload bytes biased to 7E/7D/5E/5D/00/FF, "
            "addresses 1..4 octets, any control/format type/segmentation, header-only frames) separated by 1..3 flags, optional flag-free "
            "leading noise, x splittings x 4 configurations, the per-configuration domain built by construction (repair, not rejection). "
            "Non-trivial = (>=2 frames and a cut strictly inside a frame) or a 2047-octet frame or a payload containing 7E/7D or an "
            "address longer than 2 octets. interleaved: 2-3 reader instances (any configurations) alive at once, each fed its own clean stream with "
            "the read() calls alternating - each must deliver exactly its own frames; non-trivial = every stream is split into >1 call. "
            "Distinct = distinct case hash."
            ' interleaved also builds a bystander reader with constructor parameters found by introspection (none on the unchanged tree).'
        ),
        assumptions=[
            "The wall clock is replaced by a virtual clock; drawn gaps of 0 s .. 1 day pass between read() calls - delivery must not depend on timing.",
            "Expected fields come from vlib/ref_hdlc.ref_fields applied to the octets the harness built.",
            "Without stuffing the header octets (format .. HCS, whole frame if header-only) contain no 7E; with abort detection no 7D directly before a 7E or the frame end - exactly the domain stated in C02.",
            "With stuffing, 7E and 7D are always stuffed; up to three further octet values may be stuffed too (RFC 1662 allows a sender to escape more).",
        ],
        clauses=[
            HypClause("clean", case_st, oracle, quick=12000, thorough=200000),
            HypClause("interleaved", interleaved_case_st, interleaved_oracle, quick=3000, thorough=60000, doc="2-3 reader instances fed alternately, each with its own clean stream"),
        ],
    )
