"""C09 - Kamstrup lists decode to the transmitted values with the documented scaling."""
from __future__ import annotations

import logging

from han import kamstrup
from vlib import gen_cosem as C
from hypothesis import strategies as st

from vlib.pool import PRELUDES, run_prelude
from vlib.runner import Check, HypClause, Info, fail, guarded

logging.disable(logging.CRITICAL)


def oracle(case) -> Info:
    with C.local_tz(len(repr(case))):  # the process's local time zone is part of the environment: results must not depend on it
        return _oracle_tz(case)


def _oracle_tz(case) -> Info:
    layout, list_ver, items, pads, apdu_dt, tagged = case[0], case[1], [tuple(i) for i in case[2]], list(case[3]), tuple(case[4]), case[5]
    prelude = case[6] if len(case) > 6 else "none"
    run_prelude(prelude)
    body, exp, is_ct = C.kamstrup_body(list_ver, items, pads)
    C.scribble(guarded(kamstrup.decode_notification_body, body, what="kamstrup.decode_notification_body"))  # a first result, modified by the caller
    d_body = guarded(kamstrup.decode_notification_body, body, what="kamstrup.decode_notification_body")
    m = C.dict_mismatch(d_body, exp)
    if m:
        fail(f"decode_notification_body ({layout}, CT={is_ct}): {m}; body {body.hex()[:700]}", sig=("ct:" if is_ct else "") + "body:" + m.split(":")[0][:40])
    frame = C.llc_apdu(body, apdu_dt, tagged, invoke=0)
    C.scribble(guarded(kamstrup.decode_frame_content, frame, what="kamstrup.decode_frame_content"))
    d_frame = guarded(kamstrup.decode_frame_content, frame, what="kamstrup.decode_frame_content")
    exp_frame = dict(exp)
    exp_frame["meter_datetime"] = C.dt_expected(apdu_dt)  # for frames the meter clock is the APDU date-time
    m = C.dict_mismatch(d_frame, exp_frame)
    if m:
        fail(f"decode_frame_content ({layout}, CT={is_ct}): {m}; frame {frame.hex()[:700]}", sig=("ct:" if is_ct else "") + "frame:" + m.split(":")[0][:40])
    cur = any(n.startswith("current_") and v for _c, n, k, v in items if k in ("u32", "u16"))
    en = any(n.endswith("_total") and v for _c, n, k, v in items if k in ("u32", "u16"))
    classes = [f"layout:{layout}", f"prelude:{prelude}", "CT" if is_ct else "non-CT", "padding" if any(pads) else "no-padding", "apdu:" + ("tagged" if tagged else "untagged")]
    return Info(nontrivial=cur and (en or "10s" in layout), classes=tuple(classes), sample={"layout": layout, "ct": is_ct, "body": body.hex()[:120]})


def interleave_oracle(case) -> Info:
    """Two decodes of different lists on two threads, the first paused at its k-th line inside han/ while the second runs to
    completion (the harness owns the schedule): both results must be what each list says."""
    from vlib import interleave

    m_a, m_b, frac = case
    _build = lambda m: C.kamstrup_body(m[1], [tuple(i) for i in m[2]], list(m[3]))[:2]
    body_a, exp_a = _build(m_a)
    body_b, exp_b = _build(m_b)
    total = interleave.count_han_lines(lambda: kamstrup.decode_notification_body(body_a))
    k = max(1, int(total * frac / 1000))
    res_a, res_b, reached = interleave.run_interleaved(lambda: kamstrup.decode_notification_body(body_a), lambda: kamstrup.decode_notification_body(body_b), k)
    for who, res, exp_, body_ in (("paused", res_a, exp_a, body_a), ("interleaving", res_b, exp_b, body_b)):
        if isinstance(res, BaseException):
            fail(f"{who} decode raised {type(res).__name__}: {res} (other decode ran while the first was paused at han line event {k} of {total})", sig="interleaved-raise")
        mm = C.dict_mismatch(res, exp_)
        if mm:
            fail(f"{who} decode, other decode run while the first was paused at han line event {k} of {total}: {mm}; body {body_.hex()[:200]}", sig="interleaved-threads")
    return Info(nontrivial=reached, classes=("paused-mid-decode" if reached else "finished-before-pause",))


interleave_st = st.tuples(C.kamstrup_list_st(), C.kamstrup_list_st(), st.integers(1, 999))


def build() -> Check:
    return Check(
        pid="C09",
        level="exploration",
        rule=(
            "Kamstrup lists from a hand-written encoder: list-version string, then OBIS-tagged elements of the 10-second and hourly lists "
            "(one/three phase, one/four quadrant), u32/u16 registers over the full range (boundaries forced), 0..6 null-data octets after any "
            "element (none / some / every element), meter type number from genuine non-CT types, strings beginning 685 (CT) and near misses "
            "('684..', '6 85', '0685', '68', ''), APDU date-time tagged or untagged. Oracle: currents = reg/100, or reg/1000 for CT meters, "
            "within a stated tolerance of 4*2^-53 relative (the documented computation is one float multiplication); energies = reg*10 "
            "exactly; others unchanged; texts verbatim; exact key set; manufacturer 'Kamstrup'; frame clock = APDU date-time, body clock = list "
            "element. Non-trivial = >=1 non-zero current and (>=1 non-zero energy or a 10-second list). CT and non-CT classes are counted."
            ' Near misses include 30 meter types with a blank / tab / line end / NUL / sign / quote / digit in front of 685.'
        ),
        assumptions=[
            "Every payload is decoded twice; the caller modifies the first returned dictionary before the second call (results must not be shared objects).",
            "Before each decode a drawn prelude lets another decoder (or all) process genuine messages in the same process: decoders must not depend on what was decoded before.","Currents are compared with a relative tolerance of 4*2^-53; factor-of-ten errors are 15 orders of magnitude outside it.", "Only the documented OBIS codes are sent (the decoder maps unknown codes through a table lookup; that is C15's subject)."],
        clauses=[HypClause("thread-interleavings", interleave_st, interleave_oracle, quick=250, thorough=6000, doc="decode A paused at a drawn line inside han/ while decode B runs on another thread"), HypClause("lists", st.tuples(C.kamstrup_list_st(), st.sampled_from(PRELUDES)).map(lambda t: tuple(t[0]) + (t[1],)), oracle, quick=6000, thorough=300000)],
    )
