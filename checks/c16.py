"""C16 - Readers resynchronise after noise with bounded loss."""
from __future__ import annotations

import logging
import random

from hypothesis import strategies as st

from han import dlde, hdlc
from vlib import gen_hdlc as GH
from vlib import gen_p1 as GP
from vlib import resync
from vlib.ref_hdlc import ESC, FLAG, stuff
from vlib.runner import Check, HypClause, Info, fail, guarded

logging.disable(logging.CRITICAL)

_HDR_2047 = GH.build_frame(0xA, 0, b"\x01", b"\x01", 0x10, b"", length_override=2047)[:7]  # format..HCS announcing 2047 octets


def expand_noise(kind, arg, seed, stuffing):
    rnd = random.Random(seed)
    good = resync.clean_frames(2, True, False, seed ^ 1)
    if kind == "empty":
        return b""
    if kind == "random":
        return rnd.randbytes(arg % 300)
    if kind == "random-noflag":
        return bytes(o for o in rnd.randbytes(arg % 300) if o != FLAG)
    if kind == "frame-start":  # flag + beginning of a genuine frame
        fr = good[0]
        return bytes([FLAG]) + fr[: 1 + arg % (len(fr) - 1)]
    if kind == "ends-in-escape":
        fr = good[0]
        return bytes([FLAG]) + GH.wire(fr, stuffing)[: arg % len(fr)] + bytes([ESC])
    if kind == "abort":  # frame, then 7D 7E abort sequence
        fr = good[0]
        return bytes([FLAG]) + GH.wire(fr, stuffing)[: 8 + arg % 8] + bytes([ESC, FLAG]) * (1 + arg % 2)
    if kind == "complete-then-escape":
        return bytes([FLAG]) + GH.wire(good[0], stuffing) + bytes([FLAG, ESC]) + (bytes([FLAG]) if arg % 2 else b"")
    if kind == "len2047":
        return bytes([FLAG]) + _HDR_2047 + rnd.randbytes(arg % 40)
    if kind == "truncated":
        fr = good[1]
        return bytes([FLAG]) + GH.wire(good[0], stuffing) + bytes([FLAG]) + GH.wire(fr, stuffing)[: arg % len(fr)]
    if kind == "overlong":
        return bytes([FLAG]) + bytes(o for o in rnd.randbytes(2100 + arg % 200) if o != FLAG)
    if kind == "flags":
        return bytes([FLAG]) * (arg % 6)
    if kind == "dense":
        return bytes(rnd.choice(GH.DENSE) for _ in range(arg % 80))
    raise ValueError(kind)


HDLC_NOISE = ["empty", "random", "random-noflag", "frame-start", "ends-in-escape", "ends-in-escape", "abort", "abort", "complete-then-escape", "len2047", "truncated", "overlong", "flags", "dense"]


def hdlc_oracle(case) -> Info:
    stuffing, abort, nkind, narg, seed, n, size_class, cuts = case
    cuts = tuple(cuts)
    noise = expand_noise(nkind, narg, seed, stuffing)
    lo, hi = {"small": (4, 24), "medium": (40, 250), "large-dense": (4, 24)}[size_class]
    frames = resync.clean_frames(n, stuffing, abort, seed, min_info=lo, max_info=hi)
    if size_class == "large-dense":
        # frames close to the 2047-octet maximum whose information field is dense in 7E/7D (much longer on the wire when stuffed)
        rnd = random.Random(seed ^ 0xD15E)
        for k in range(1, len(frames), 2):
            info = bytes([0xE6, 0xE7, 0x00]) + f"{k:04d}".encode() + bytes(rnd.choice([0x7E, 0x7D, 0x7E, 0x11, 0x5E]) for _ in range(rnd.choice([1500, 1900, 2030])))
            frames[k] = GH.build_frame(0xA, 0, b"\x01", b"\x01", 0x10, info)
    tail, starts = resync.frames_tail(frames, stuffing, seed)
    stream = noise + tail
    if stuffing:
        must = frames[1:]
    else:
        must = [f for f, s in zip(frames, starts) if s > 2047 + len(f)]
    reader = hdlc.HdlcFrameReader(use_octet_stuffing=stuffing, use_abort_sequence=abort)
    bystander = hdlc.HdlcFrameReader(use_octet_stuffing=stuffing, use_abort_sequence=True)  # another instance in use at the same time
    valid = []
    state_after_noise = None
    fed = 0
    for k, ch in enumerate(GH.split(stream, cuts)):
        guarded(bystander.read, (b"\x7e\xa0\x10\x01\x01\x10\x7d", b"\x5d\x01\x7d", b"\x7e\x7d")[k % 3], what="HdlcFrameReader.read (bystander)")
        for fr in guarded(reader.read, ch, what="HdlcFrameReader.read"):
            if guarded(lambda fr=fr: fr.is_valid):
                valid.append(guarded(lambda fr=fr: fr.as_bytes))
        fed += len(ch)
    # state right after the noise (separate reader, single call) for classification only
    probe = hdlc.HdlcFrameReader(use_octet_stuffing=stuffing, use_abort_sequence=abort)
    guarded(probe.read, noise)
    mid_frame = not probe.is_in_hunt_mode
    resync.check_delivered(valid, must, f"HDLC stuffing={stuffing} abort={abort} after noise '{nkind}' {noise[-24:].hex()} ({len(noise)} octets), {n} clean frames, cuts {cuts[:2]}", fail, sig="hdlc")
    first_lost = frames[0] not in valid
    nt = bool(must) and (mid_frame or noise.endswith(bytes([ESC])) or first_lost)
    classes = [f"cfg:{int(stuffing)}{int(abort)}", f"noise:{nkind}", "must>0" if must else "must=0"]
    if first_lost:
        classes.append("first-lost")
    if mid_frame:
        classes.append("noise-leaves-mid-frame")
    return Info(nontrivial=nt, classes=tuple(classes), sample={"cfg": [stuffing, abort], "noise": nkind, "noise_tail": noise[-16:].hex(), "frames": n, "must": len(must), "cuts": list(cuts)[:2]})


@st.composite
def hdlc_case_st(draw):
    stuffing, abort = draw(GH.config_st)
    nkind = draw(st.sampled_from(HDLC_NOISE))
    if stuffing:
        n = draw(st.sampled_from([2, 3, 4, 5]) | st.integers(2, 40))
        size = draw(st.sampled_from(["small", "small", "medium", "large-dense"]))
        if size == "large-dense":
            n = min(n, 6)
    else:
        n = draw(st.sampled_from([20, 30, 40]) | st.integers(12, 40))
        size = "medium"
    return (stuffing, abort, nkind, draw(st.integers(0, 10**6)), draw(st.integers(0, 2**31)), n, size, draw(GH.cuts_st()))


# ------------------------------------------------------------------------------------------- P1

P1_NOISE = ["empty", "random", "random-ascii", "ident-only", "ident-and-lines", "ident-no-lf", "slash-long-no-lf", "long-no-lf", "truncated-readout", "readout-tail", "end-line-only", "non-ascii-ident", "ident-then-long-line", "many-ident-lines",
            "readout-nonascii-end-line", "readout-bad-end-line", "bang-in-ident", "readout-nonascii-data", "structural-tokens", "structural-tokens", "compound", "compound", "compound", "compound", "compound"]

_P1_TOKENS = [
    b"/", b"!", b"\n", b"\r\n", b"\x80", b"\xff", b"\xc3\xa6", b"/LGF5E360\r\n", b"/ABC5a!b\r\n", b"/AB\xc3\xa65x\r\n", b"/ABC5x\n", b"/abc\r\n",
    b"!ZZZZ\r\n", b"!12\xff4\r\n", b"!\r\n", b"!A077\r\n", b"!0000\r\n", b"!\xff\r\n", b"!12", b"!G\n", b"1-0:1.8.0(00001605.055*kWh)\r\n", b"1-0:1.8.0(\xe5)\r\n",
    b"/ABC5x\r\n1-0:1.7.0(1*kW)\r\n", b"(", b")", b"\x7e", b"\r",
]


_P1_TAILS = [b"", b"/", b"\x00\x00/\x00\x00", b"/ABC5noi", b"!", b"1-0:1.7.0(", b"\r", b"/ABC5x\r"]


def compound_parts(arg, seed):
    """Noise made of two families and a short tail; each part arrives in its own read() call."""
    fam = [k for k in dict.fromkeys(P1_NOISE) if k != "compound"]
    a, b, t = fam[arg % len(fam)], fam[(arg // len(fam)) % len(fam)], _P1_TAILS[(arg // (len(fam) ** 2)) % len(_P1_TAILS)]
    return [expand_p1_noise(a, arg // 7, seed), expand_p1_noise(b, arg // 11, seed ^ 0x5A5A), t], (a, b)


def expand_p1_noise(kind, arg, seed):
    if kind == "compound":
        return b"".join(compound_parts(arg, seed)[0])
    rnd = random.Random(seed)
    ro = resync.clean_readouts(1, seed ^ 3)[0]
    if kind == "empty":
        return b""
    if kind == "random":
        return rnd.randbytes(arg % 400)
    if kind == "random-ascii":
        return bytes(rnd.choice(b"/!\r\n0123456789ABCDEF().*:- kWh") for _ in range(arg % 400))
    if kind == "ident-only":
        return b"/ABC5noise\r\n"
    if kind == "ident-and-lines":
        return b"/ABC5noise\r\n" + GP.expand_lines(arg % 30, seed, True)
    if kind == "ident-no-lf":
        return b"/ABC5noi"
    if kind == "slash-long-no-lf":
        return b"/" + bytes(rnd.choice(b"0123456789abcdef") for _ in range(8200 + arg % 3000))
    if kind == "long-no-lf":
        return bytes(rnd.choice(b"0123456789abcdef/") for _ in range(8200 + arg % 3000))
    if kind == "truncated-readout":
        return ro[: 1 + arg % (len(ro) - 1)]
    if kind == "readout-tail":
        return ro[1 + arg % (len(ro) - 1) :]
    if kind == "end-line-only":
        return b"!12AB\r\n"
    if kind == "non-ascii-ident":
        return b"/AB\xc3\xa65x\r\n1-0:1.7.0(1*kW)\r\n"
    if kind == "ident-then-long-line":
        return b"/ABC5noise\r\n1-0:1.7.0(" + bytes(rnd.choice(b"0123456789") for _ in range(8200 + arg % 2000))
    if kind == "many-ident-lines":
        return b"".join(b"/ABC5n%03d\r\n" % i for i in range(1 + arg % 20))
    if kind == "readout-nonascii-end-line":
        return b"/ABC5noise\r\n1-0:1.7.0(1*kW)\r\n!12" + bytes([0x80 + arg % 128]) + b"4\r\n"
    if kind == "readout-bad-end-line":
        return b"/ABC5noise\r\n1-0:1.7.0(1*kW)\r\n!" + rnd.choice([b"ZZZZ", b"12 34", b"-1", b"0x", b"G", b"1" * 40]) + b"\r\n"
    if kind == "bang-in-ident":
        return b"/ABC5a!b\r\n1-0:1.7.0(1*kW)\r\n!\r\n"
    if kind == "readout-nonascii-data":
        return b"/ABC5noise\r\n1-0:1.7.0(" + bytes([0x80 + arg % 128]) + b"*kW)\r\n!\r\n"
    if kind == "structural-tokens":
        return b"".join(rnd.choice(_P1_TOKENS) for _ in range(1 + arg % 12))
    raise ValueError(kind)


def p1_oracle(case) -> Info:
    nkind, narg, seed, n, cuts = case
    cuts = tuple(cuts)
    if seed % 5 == 0 and cuts[0] in ("none", "single"):
        cuts = ("fixed", 8190 + narg % 16, narg % 8191)  # chunk boundaries that fall inside / next to the end line of a ~8 KiB readout
    noise = expand_p1_noise(nkind, narg, seed)
    readouts = resync.clean_readouts(n, seed)
    if seed % 5 == 0 and n >= 2:
        # one well-formed readout whose length is just below the reader's 8191-byte limit
        rnd = random.Random(seed)
        head = b"/ABC5big\r\n"
        target = rnd.choice([8150, 8186, 8188, 8191]) - len(head)
        lines = bytearray()
        while len(lines) + 31 <= target:
            lines += b"1-0:1.8.0(00001605.055*kWh)\r\n"[: 29] + b"\r\n" if False else b"1-0:1.8.0(00001605.055*kWh)\r\n"
        pad = target - len(lines)
        if pad >= 14:
            lines += b"0-0:96.1.9(" + b"7" * (pad - 14) + b")\r\n"
        readouts[1] = GP.add_end(head + bytes(lines), rnd.choice(["upper", "none"]))
    stream = noise + b"".join(readouts)
    reader = dlde.ModeDReader()
    bystander = dlde.ModeDReader()  # another instance in use at the same time
    valid = []
    if nkind == "compound":  # the noise parts arrive as separate read() calls, the clean readouts are cut as drawn
        chunks = [p_ for p_ in compound_parts(narg, seed)[0] if p_] + GH.split(b"".join(readouts), cuts)
    else:
        chunks = GH.split(stream, cuts)
    for k, ch in enumerate(chunks):
        guarded(bystander.read, (b"/ABC5by\r\n", b"1-0:1.7.0(1*kW)\r\n", b"!\r\n", b"/XYZ")[k % 4], what="ModeDReader.read (bystander)")
        for ro in guarded(reader.read, ch, what="ModeDReader.read"):
            if guarded(lambda ro=ro: ro.is_valid):
                valid.append(guarded(lambda ro=ro: ro.as_bytes))
    must = readouts[1:]
    probe = dlde.ModeDReader()
    guarded(probe.read, noise)
    collecting = not probe.is_in_hunt_mode
    resync.check_delivered(valid, must, f"P1 after noise '{nkind}' ({len(noise)} bytes, ..{noise[-20:]!r}), {n} clean readouts, cuts {cuts[:2]}", fail, sig="p1")
    first_lost = readouts[0] not in valid
    classes = [f"noise:{nkind}", f"cuts:{cuts[0]}"]
    if first_lost:
        classes.append("first-lost")
    if collecting:
        classes.append("noise-leaves-collecting")
    return Info(nontrivial=collecting or first_lost or len(noise) > 8191, classes=tuple(classes), sample={"noise": nkind, "noise_len": len(noise), "readouts": n, "cuts": list(cuts)[:2]})


@st.composite
def p1_case_st(draw):
    return (draw(st.sampled_from(P1_NOISE)), draw(st.integers(0, 10**6)), draw(st.integers(0, 2**31)), draw(st.sampled_from([2, 3, 5]) | st.integers(2, 40)), draw(GH.cuts_st()))


def build() -> Check:
    return Check(
        pid="C16",
        level="exploration",
        rule=(
            "hdlc: noise prefix from 12 families (random bytes, flag + start of a genuine frame, prefix ending in 7D, frame then 7D 7E abort "
            "sequence(s), complete frame + flag + 7D, header announcing 2047 octets, truncated second frame, >2047 flag-free octets, flags, "
            "7E/7D-dense bytes) followed by 2..40 sequence-numbered clean frames delimited by shared or double flags (flag-free without "
            "stuffing; with stuffing also frames near the 2047-octet maximum whose payload is dense in 7E/7D), x splittings x 4 configurations; must-deliver set = all but the first (stuffing) / frames starting more than "
            "2047 + own length octets after the noise (no stuffing). p1: 20 noise families (compound = two families + a short tail, each part in its own read() call; random, identification line only / with "
            "data lines / without LF, '/' + >8 KiB without LF, >8 KiB without LF, truncated readout, readout tail, lone end line, "
            "non-ASCII identification, identification + >8 KiB line, many identification lines, complete readouts with a non-ASCII / non-hexadecimal "
            "end line or non-ASCII data, '!' inside the identification line, seeded sequences of structural tokens) followed by 2..40 clean readouts back to "
            "back; must-deliver = all but the first. Oracle: each must-deliver message appears exactly once, byte-identical, valid, in "
            "order. Non-trivial = must-deliver set non-empty and (noise leaves the reader mid-frame/collecting, or ends in 7D, or the "
            "first clean message is in fact lost, or P1 noise > 8191 bytes). Distinct = case hash."
        ),
        assumptions=[
            "A second reader instance (bystander) is fed unrelated fragments between the calls: instances must not share state.",
            "Clean frames are in C02's domain for the configuration and, without stuffing, contain no 7E at all (C16's 'flag-free frame').",
            "Noise is followed directly by the opening flag of the first clean frame / the '/' of the first clean readout.",
        ],
        clauses=[
            HypClause("hdlc", hdlc_case_st, hdlc_oracle, quick=8000, thorough=150000),
            HypClause("p1", p1_case_st, p1_oracle, quick=5000, thorough=100000),
        ],
    )
