"""C01 - HDLC: a frame is reported valid exactly when it is intact, with exact fields, and frames embed in the input."""
from __future__ import annotations

import logging

from hypothesis import strategies as st

from han import hdlc
from vlib import gen_hdlc as G
from vlib.ref_fcs import fcs16_octets
from vlib.ref_hdlc import FLAG, find_embedding, ref_fields, ref_valid
from vlib.runner import Check, HypClause, Info, fail, guarded

logging.disable(logging.CRITICAL)


def feed(stuffing, abort, stream, cuts):
    reader = hdlc.HdlcFrameReader(use_octet_stuffing=stuffing, use_abort_sequence=abort)
    frames = []
    kept = []
    for chunk in G.split(stream, cuts):
        got = guarded(reader.read, chunk, what="HdlcFrameReader.read")
        if not isinstance(got, list):
            fail(f"read() returned {type(got).__name__}, not a list", sig="not-list")
        kept.append((got, list(got)))
    for k, (lst, snap) in enumerate(kept):  # a caller may keep every returned list: later calls must not touch it
        if len(lst) != len(snap) or any(a is not b for a, b in zip(lst, snap)):
            fail(f"the list returned by read() call #{k} of {len(kept)} was changed by a later call ({len(snap)} frames then, {len(lst)} now)", sig="returned-list-mutated")
        frames.extend(snap)
    return frames


def check_frame_predicates(fr, idx):
    """(a) validity both directions, (b) exact fields for a valid frame. Returns (valid, fcs_ok, len_ok, fields)."""
    b = guarded(lambda: fr.as_bytes, what="as_bytes")
    # the verdict must not depend on which accessors were used before (order chosen from the frame itself, deterministically)
    order = (len(b) + idx) % 4
    if order == 1:
        guarded(lambda: (fr.payload, fr.frame_check_sequence, fr.header.control), what="accessors")
    elif order == 2:
        guarded(lambda: (fr.header.destination_address, fr.header.source_address, fr.header.header_check_sequence, fr.is_good_ffc, fr.is_expected_length), what="accessors")
    elif order == 3:
        guarded(lambda: (fr.is_valid, fr.message_type, len(fr)), what="accessors")
    valid = guarded(lambda: fr.is_valid, what="is_valid")
    if guarded(lambda: fr.is_valid, what="is_valid") is not valid or guarded(lambda: fr.as_bytes) != b:
        fail(f"frame #{idx} {b.hex()}: is_valid / as_bytes change between two reads", sig="unstable")
    want = ref_valid(b)
    fcs_ok = len(b) >= 2 and fcs16_octets(b[:-2]) == b[-2:]
    len_ok = len(b) >= 2 and (((b[0] << 8) | b[1]) & 0x7FF) == len(b)
    if bool(valid) != want:
        fail(
            f"frame #{idx} {b.hex()}: is_valid={valid} but reference says {want} (fcs_ok={fcs_ok}, length_ok={len_ok}, octets={len(b)})",
            sig="validity-false-positive" if valid else "validity-false-negative",
        )
    fields = ref_fields(b)
    if want and fields is not None:
        h = fr.header
        got = {
            "frame_length": guarded(lambda: h.frame_length),
            "destination_address": guarded(lambda: h.destination_address),
            "source_address": guarded(lambda: h.source_address),
            "control": guarded(lambda: h.control),
            "format_type": guarded(lambda: h.frame_format_type),
            "segmentation": guarded(lambda: h.segmentation),
        }
        for k, v in got.items():
            if v != fields[k]:
                fail(f"valid frame {b.hex()}: header.{k} = {v!r}, frame octets say {fields[k]!r}", sig=f"field-{k}")
        hcs = guarded(lambda: h.header_check_sequence)
        if hcs is None or hcs.to_bytes(2, "big") != fields["hcs"]:
            fail(f"valid frame {b.hex()}: header_check_sequence = {hcs!r}, octets {fields['hcs'].hex()}", sig="field-hcs")
        fcs = guarded(lambda: fr.frame_check_sequence)
        if fcs is None or fcs.to_bytes(2, "big") != fields["fcs"]:
            fail(f"valid frame {b.hex()}: frame_check_sequence = {fcs!r}, octets {fields['fcs'].hex()}", sig="field-fcs")
        payload = guarded(lambda: fr.payload)
        if fields["payload"] != "ambiguous":
            if (payload or b"") != (fields["payload"] or b"") or (fields["payload"] and payload is None):
                fail(f"valid frame {b.hex()}: payload = {payload!r}, octets between HCS and FCS are {fields['payload']!r}", sig="field-payload")
    return valid, fcs_ok, len_ok, fields, b


def oracle(case) -> Info:
    stuffing, abort, stream, cuts = case[0], case[1], case[2], tuple(case[3])
    frames = feed(stuffing, abort, stream, cuts)
    classes = [f"cfg:{int(stuffing)}{int(abort)}", f"cuts:{cuts[0]}"]
    interesting = False
    octs = []
    fr = None
    for i, fr in enumerate(frames):
        valid, fcs_ok, len_ok, fields, b = check_frame_predicates(fr, i)
        octs.append(b)
        classes.append(f"frame:fcs{int(fcs_ok)}len{int(len_ok)}")
        if fcs_ok != len_ok:
            interesting = True
        if valid and fields and (len(fields["destination_address"]) > 1 or len(fields["source_address"]) > 1):
            interesting = True
            classes.append("valid-multi-octet-address")
            if len(fields["destination_address"]) > 4 or len(fields["source_address"]) > 4:
                classes.append("valid-address>4-octets")
        if valid and fields and fields["payload"] not in (None, "ambiguous") and fcs16_octets(b[: 2 + len(fields["destination_address"]) + len(fields["source_address"]) + 1]) != fields["hcs"]:
            classes.append("valid-frame-with-wrong-HCS")
    # a caller may keep only frame.header: the header accessors must keep working after the frame object itself is gone
    kept_headers = []
    for fr, b in zip(frames, octs):
        f_ = ref_fields(b)
        if f_ is not None and ref_valid(b):
            kept_headers.append((fr.header, f_, b))
    nframes = len(frames)
    del frames, fr  # (no gc.collect(): whatever keeps the frame alive - a reference cycle included - is the library's business)
    for h, f_, b in kept_headers:
        got_h = guarded(lambda: (h.destination_address, h.source_address, h.control, h.frame_length), what="header accessors after the frame was dropped")
        if got_h != (f_["destination_address"], f_["source_address"], f_["control"], f_["frame_length"]):
            fail(f"valid frame {b.hex()}: header accessors after the frame object was released give {got_h!r}", sig="header-after-frame-dropped")
    frames = [None] * nframes
    ok, info = find_embedding(stream, octs, stuffing)
    if not ok:
        fail(
            f"frame #{info} {octs[info].hex()} does not occur between two flags of the input "
            f"({'after un-stuffing, ' if stuffing else ''}disjoint from and after the previous frames); stream {stream.hex()}",
            sig="embedding",
        )
    if frames:
        cps = G.cut_points(stream, cuts)
        if any(a < c < e for (a, e) in info for c in cps):
            interesting = True
            classes.append("cut-inside-frame")
    classes.append("frames:%s" % min(len(frames), 4))
    return Info(nontrivial=bool(frames) and interesting, classes=tuple(classes))


# ---- generator -------------------------------------------------------------------------------------


@st.composite
def token_st(draw):
    kind = draw(st.sampled_from(["good", "good", "defect", "defect", "defect", "noise"]))
    if kind == "good":
        spec = draw(G.frame_spec_st(big=draw(st.integers(0, 9)) == 9, header_only_weight=2, long_addr=True))
        octs = G.frame_from_spec(spec)
    elif kind == "defect":
        _k, octs = draw(G.defect_frame_st())
    else:
        if draw(st.integers(0, 39)) == 39:
            # a frame whose address never terminates: a long run of even octets (also beyond the 2047-octet maximum)
            return bytes([0xA0, draw(st.integers(0, 255))]) + bytes([draw(st.sampled_from([0x02, 0x00, 0xFE, 0x10]))]) * draw(st.sampled_from([900, 1000, 1050, 1100]))
        return draw(G.noise_st)
    stuffed = draw(st.booleans())  # independent of the reader mode: a stuffing reader also sees unstuffed 7D/7E
    extra = frozenset(draw(st.lists(st.integers(0, 255), max_size=3))) if stuffed and draw(st.booleans()) else frozenset()
    return G.wire(octs, stuffed, extra)


@st.composite
def case_st(draw):
    stuffing, abort = draw(G.config_st)
    n = draw(st.integers(1, 5))
    stream = bytearray(draw(st.one_of(st.just(b""), G.noise_st)))
    for _ in range(n):
        stream += bytes([FLAG]) * draw(st.sampled_from([0, 1, 1, 1, 2, 3]))
        stream += draw(token_st())
    stream += bytes([FLAG]) * draw(st.sampled_from([0, 1, 1, 2]))
    return (stuffing, abort, bytes(stream), draw(G.cuts_st()))


def build() -> Check:
    return Check(
        pid="C01",
        level="exploration",
        rule=(
            "Streams = optional noise + 1..5 tokens (well-formed frame with 1..8-octet addresses | frame with one injected defect: bit flip, truncation at any "
            "offset incl. right after the HCS, extra octets, wrong length field with recomputed HCS/FCS, wrong HCS with recomputed FCS (still valid by C01's definition), dropped octet, swapped FCS | raw "
            "noise biased to 7E/7D/5E/5D/A0) separated by 0..3 flags, each token stuffed or not independently of the reader mode, x a "
            "splitting (none, bytewise, single, multi, fixed size, tail-bytewise) x 4 configurations. Non-trivial = at least one frame "
            "returned AND (a returned frame with good FCS but wrong length or right length but bad FCS, or a valid frame with a "
            "multi-octet address, or a cut strictly inside a returned frame's input span). Distinct = distinct case hash."
        ),
        assumptions=[
            "Validity reference = bit-serial FCS-16 + length field, vlib/ref_hdlc.py; no reference reader: C01 does not say which frames are returned.",
            "Before is_valid is read, a deterministic choice of other accessors is used (none / payload+FCS+control / addresses+HCS+flags / is_valid itself): the verdict must not depend on access order.",
            "Field accessors compared only when the reference can parse address+control+check sequence; payload not compared when exactly one octet follows the HCS position (HCS/FCS would overlap).",
            "A trailing lone escape octet before a flag un-stuffs to nothing (unstuff() in the reference).",
        ],
        clauses=[HypClause("frames", case_st, oracle, quick=30000, thorough=600000)],
    )
