"""C14 - Readers, messages and protocols never raise on line noise; the reader stays usable afterwards."""
from __future__ import annotations

import asyncio
import logging

from hypothesis import strategies as st

from han import dlde, hdlc, meter_connection
from han.common import MeterMessageType
from vlib import gen_hdlc as GH
from vlib import resync
from vlib.ref_hdlc import FLAG
import os

from vlib.runner import Check, EnumClause, FuzzClause, HypClause, Info, fail, guarded

logging.disable(logging.CRITICAL)

GENUINE_READOUT = (
    b"/ELL5\\253833635_A\r\n\r\n0-0:1.0.0(201020085222W)\r\n1-0:1.8.0(00001605.055*kWh)\r\n1-0:32.7.0(234.4*V)\r\n1-0:31.7.0(013.6*A)\r\n!80FF\r\n"
)
GENUINE_FRAME = bytes.fromhex("7ea02a410883130413e6e7000f40000000000101020309060100010700ff060000067d02020f00161b1c057e")

_FIXED = [
    b"/", b"!", b"\n", b"\r", b"\r\n", b"\x7e", b"\x7d", b"\x80", b"\xff", b"\xc3\xa6", b"(", b")", b"*",
    b"/LGF5E360\r\n", b"/ABC5a!b\r\n", b"/AB\xc3\xa65x\r\n", b"/ABC5\x80\r\n", b"/ABC5x\n", b"/abc\r\n", b"/ABC5x\r\n\xe6\r\n",
    b"!ZZZZ\r\n", b"!12\xff4\r\n", b"!\r\n", b"!A077\r\n", b"!0000\r\n", b"! 1F\r\n", b"!\xff\r\n", b"!12", b"!G\n", b"!-1\r\n", b"!0x\r\n",
    b"1-0:1.8.0(00001605.055*kWh)\r\n", b"1-0:1.8.0(\xe5)\r\n", b"/ABC5x\r\n1-0:1.7.0(1*kW)\r\n",
    bytes.fromhex("7ea0"), bytes.fromhex("7ea7ff0101103883"), bytes.fromhex("7d7e"), bytes.fromhex("7e7d7e"),
    bytes.fromhex("7ea00801020110378d7e"), bytes.fromhex("7ea00801020110378c7e"),  # header-only frame (no information field): good / bad check sequence
    bytes.fromhex("7ea00c0102011027a00201e7de7e"), bytes.fromhex("7ea00c0102011027a00201e7df7e"),  # short frame: good / bad FCS
]

_IDENTS = [b"/ELL5\\253833635_A", b"/ISk5\\2MT382-1000", b"/LGF5E360", b"/KFM5KAIFA-METER", b"/ABC5\\W\\3x"]


@st.composite
def damaged_readout_st(draw):
    """An identification line with one octet replaced by a drawn octet (mostly >= 0x80), optionally completed to a readout."""
    ident = bytearray(draw(st.sampled_from(_IDENTS)))
    pos = draw(st.integers(1, len(ident) - 1))
    ident[pos] = draw(st.one_of(st.integers(0x80, 0xFF), st.sampled_from([0xE9, 0xB2, 0xAA, 0xB5, 0xC0, 0xFF, 0x85, 0xA0, 0x21, 0x2F])))
    if draw(st.booleans()):
        ident.insert(pos, 0x5C)  # a backslash in front of it
    body = draw(st.sampled_from([b"", b"\r\n", b"1-0:1.7.0(1*kW)\r\n", b"\r\n1-0:1.8.0(00001605.055*kWh)\r\n"]))
    end = draw(st.sampled_from([b"!\r\n", b"!\r\n", b"", b"!0000\r\n", b"!12"]))
    return bytes(ident) + b"\r\n" + body + end


# long runs of one kind of octet inside a frame (addresses that never terminate, fill characters)
long_run_st = st.tuples(st.sampled_from([b"\x7e", b"\x7e\xa0\x10", b""]), st.sampled_from([0x02, 0x00, 0x10, 0xFE, 0x11, 0x13, 0x7D]), st.sampled_from([300, 1000, 1050, 1100])).map(lambda t: t[0] + bytes([t[1]]) * t[2])
# (a run of even octets costs the reader quadratic time - see DESIGN section 5 - so these tokens are kept rare and <= 1100 octets)
long_run_rare_st = st.integers(0, 11).flatmap(lambda k: long_run_st if k == 0 else st.just(b""))

token_st = st.one_of(
    damaged_readout_st(),
    long_run_rare_st,
    st.sampled_from(_FIXED),
    st.sampled_from(_FIXED),
    st.binary(min_size=0, max_size=12),
    st.lists(st.sampled_from(list(b"/!\n\r~}\x80\xff0123456789ABCDEFabcdefxyz ()*.:-")), max_size=10).map(bytes),
    st.tuples(st.integers(0, len(GENUINE_READOUT)), st.integers(0, len(GENUINE_READOUT))).map(lambda t: GENUINE_READOUT[min(t) : max(t)]),
    st.tuples(st.integers(0, len(GENUINE_FRAME)), st.integers(0, len(GENUINE_FRAME))).map(lambda t: GENUINE_FRAME[min(t) : max(t)]),
)

TARGETS = ["hdlc00", "hdlc01", "hdlc10", "hdlc11", "p1"]
PROTO_TARGETS = [("payload", "HP"), ("payload", "PH"), ("message", "HP"), ("message", "PH"), ("payload", "P"), ("message", "H")]
# a valid message first, so that a reader is already selected when the noise arrives
PRESELECT = {"H": bytes.fromhex("7ea00c0102011027a00201e7de7e"), "P": GENUINE_READOUT}

_loop = None


def _ensure_loop():
    global _loop
    if _loop is None:
        _loop = asyncio.new_event_loop()
        asyncio.set_event_loop(_loop)


def make_reader(name):
    if name == "p1":
        return dlde.ModeDReader()
    return hdlc.HdlcFrameReader(use_octet_stuffing=name[4] == "1", use_abort_sequence=name[5] == "1")


def poke_message(msg, what):
    v = guarded(lambda: msg.is_valid, what=f"{what}.is_valid")
    if v is not True and v is not False:
        fail(f"{what}.is_valid returned {v!r}", sig="is_valid-not-bool")
    guarded(lambda: msg.payload, what=f"{what}.payload")
    b = guarded(lambda: msg.as_bytes, what=f"{what}.as_bytes")
    t = guarded(lambda: msg.message_type, what=f"{what}.message_type")
    if not isinstance(t, MeterMessageType):
        fail(f"{what}.message_type returned {t!r}", sig="message_type")
    return v, b


def run_reader(name, noise, cuts, tail_seed):
    reader = make_reader(name)
    n_msgs = 0
    for ch in GH.split(noise, cuts):
        got = guarded(reader.read, ch, what=f"{type(reader).__name__}.read")
        if not isinstance(got, list):
            fail(f"read() returned {type(got).__name__}", sig="not-list")
        for m in got:
            poke_message(m, type(m).__name__)
            n_msgs += 1
    # usability: a clean stream afterwards is processed per C16
    if name == "p1":
        msgs = resync.clean_readouts(3, tail_seed)
        tail = b"".join(msgs)
        must = msgs[1:]
    else:
        stuffing, abort = name[4] == "1", name[5] == "1"
        if stuffing:
            msgs = resync.clean_frames(3, stuffing, abort, tail_seed)
            tail, _starts = resync.frames_tail(msgs, stuffing, tail_seed)
            must = msgs[1:]
        else:
            msgs = resync.clean_frames(150, stuffing, abort, tail_seed, min_info=2, max_info=6)
            tail, starts = resync.frames_tail(msgs, stuffing, tail_seed)
            must = [m for m, s in zip(msgs, starts) if s > 2047 + len(m)]
            assert len(must) >= 3
    valid = []
    for ch in GH.split(tail, ("fixed", 97, 0)):
        for m in guarded(reader.read, ch, what=f"{type(reader).__name__}.read (clean tail)"):
            v, b = poke_message(m, type(m).__name__)
            if v:
                valid.append(b)
    resync.check_delivered(valid, must, f"{name} after noise {noise[-40:].hex()}", fail, sig=f"unusable-{'p1' if name == 'p1' else 'hdlc'}")
    return n_msgs


def run_protocol(kind, order, noise, cuts, preselect=None):
    _ensure_loop()
    readers = [hdlc.HdlcFrameReader(False) if c == "H" else dlde.ModeDReader() for c in order]
    q = asyncio.Queue()
    cls = meter_connection.SmartMeterMessagePayloadProtocol if kind == "payload" else meter_connection.SmartMeterMessageProtocol
    proto = guarded(cls, q, readers if len(noise) % 2 else tuple(readers), what=cls.__name__)  # a list or a tuple (Sequence)
    if preselect is not None:
        guarded(proto.data_received, PRESELECT[preselect], what=f"{cls.__name__}.data_received (valid message)")
    for ch in GH.split(noise, cuts):
        guarded(proto.data_received, ch, what=f"{cls.__name__}.data_received[{order}]")
    n = 0
    while not q.empty():
        item = q.get_nowait()
        n += 1
        if kind == "message":
            poke_message(item, "queued message")
    return n


class _Null(logging.Handler):
    def emit(self, record):
        try:
            record.getMessage()  # format the message as a real handler would
        except Exception:  # noqa: BLE001 - real handlers route formatting errors to Handler.handleError(), they never propagate
            pass


_root = logging.getLogger()
_root.addHandler(_Null())


def oracle(case) -> Info:
    debug_logging = case[2] % 2 == 1
    logging.disable(logging.NOTSET if debug_logging else logging.CRITICAL)
    _root.setLevel(logging.DEBUG if debug_logging else logging.WARNING)
    try:
        return _oracle(case)
    finally:
        logging.disable(logging.CRITICAL)


def _oracle(case) -> Info:
    noise, cuts, tail_seed = case[0], tuple(case[1]), case[2]
    total = 0
    for name in TARGETS:
        total += run_reader(name, noise, cuts, tail_seed)
    for kind, order in PROTO_TARGETS:
        total += run_protocol(kind, order, noise, cuts)
    # the same with a reader already selected by a preceding valid message (selected reader = the HDLC / the P1 reader)
    for kind in ("payload", "message"):
        for pre in ("H", "P"):
            total += run_protocol(kind, "HP", noise, cuts, preselect=pre)
    structural = any(c in noise for c in b"/!\n\x7e\x7d")
    high = any(c >= 0x80 for c in noise)
    bad_end = False
    for line in noise.split(b"\n"):
        if line.startswith(b"!") and len(line.strip()) > 1:
            t = line.strip()[1:]
            if not (len(t) == 4 and all(ch in b"0123456789ABCDEFabcdef" for ch in t)):
                bad_end = True
    classes = []
    if high:
        classes.append("byte>=0x80")
    if bad_end:
        classes.append("malformed-end-line")
    if total:
        classes.append("messages-produced")
    classes.append(f"cuts:{cuts[0]}")
    return Info(nontrivial=structural and (high or bad_end), classes=tuple(classes))


case_st = st.tuples(st.lists(token_st, min_size=0, max_size=14).map(b"".join), GH.cuts_st(), st.integers(0, 10**6))


def fresh_interpreter_oracle(case) -> Info:
    """case = (n examples, seed): run the noise clause in a fresh interpreter with DEBUG logging configured before han is imported."""
    import json
    import os
    import subprocess
    import sys

    from vlib.runner import dec

    n, seed = case
    r = subprocess.run([sys.executable, "-m", "vlib.subrun", "C14", "noise", str(n), str(seed)], capture_output=True, text=True, timeout=1500, env=os.environ)
    line = next((l for l in r.stdout.splitlines() if l.startswith("SUBRUN-RESULT ")), None)
    if line is None:
        raise RuntimeError(f"fresh-interpreter run produced no result: {r.stderr[-400:]}")
    res = json.loads(line[len("SUBRUN-RESULT "):])
    if res["failure"]:
        case_enc, detail, sig = res["failure"]
        fail(f"[fresh interpreter, logging at DEBUG before `import han`; noise {dec(case_enc)[0]!r:.80}] {detail}", sig=sig)
    return Info(nontrivial=True, classes=("fresh-interpreter-run",), counts={"fresh-interpreter-cases": res["evals"]}, sample={"examples": res["evals"], "seed": seed})


def build() -> Check:
    return Check(
        pid="C14",
        level="exploration",
        rule=(
            "Noise = concatenation of up to 14 tokens: structural bytes (/ ! LF CR 7E 7D), bytes >= 0x80, identification-like lines (also "
            "with '!' or non-ASCII inside), end lines with hex / non-hex / non-ASCII text, data lines, random binary, arbitrary slices of a "
            "genuine readout and a genuine frame; x a drawn splitting. Every case is run through the HDLC reader in all 4 configurations, the "
            "P1 reader, and both protocol classes with candidate lists [HDLC,P1], [P1,HDLC], [P1], [HDLC], and again after a valid frame / a valid "
            "readout has already selected a reader; every returned message is asked "
            "is_valid/payload/as_bytes/message_type; then a clean tail (3 frames/readouts; 150 flag-free frames without stuffing) must be "
            "delivered per C16's rule. Non-trivial = the noise contains a structural character and (a byte >= 0x80 or a malformed end "
            "line). debug-at-import: the same noise cases in fresh interpreters whose logging was set to DEBUG before `han` was imported. Failures are bucketed by (exception type, innermost han function). Distinct = case hash. coverage-guided: atheris "
            "(libFuzzer) campaigns with han/ instrumented, raw bytes decoded into (splitting, noise), half from an empty corpus and half "
            "seeded with genuine messages; its executions are counted in evaluations but not in distinct_nontrivial."
        ),
        assumptions=[
            "Only exceptions escaping the public calls count. Half of the cases run with the library's DEBUG logging enabled (handler that formats every record), half with logging disabled.",
            "Usability rule after noise as in C16: stuffing and P1 - all clean messages but possibly the first; no stuffing - flag-free frames starting more than 2047 + own length octets after the noise.",
        ],
        clauses=[
            HypClause("noise", case_st, oracle, quick=3000, thorough=300000),
            EnumClause("debug-at-import", size=lambda tier: 2 if tier == "quick" else 16, case_at=lambda i, tier: (80 if tier == "quick" else 3000, int(os.environ.get("VERIF_SEED", "1") or 1) * 100 + i), oracle=fresh_interpreter_oracle, doc="noise cases in fresh interpreters where logging was at DEBUG before han was imported", exhaustive=False),
            FuzzClause("coverage-guided", "C14", oracle, quick=(2, 150), thorough=(16, 40000), max_len=400, doc="atheris/libFuzzer campaigns on the same oracle (raw bytes -> splitting + noise), empty and fixture corpora"),
        ],
    )
