"""C07 - Aidon lists decode to the transmitted register values, scaled exactly."""
from __future__ import annotations

import logging

from hypothesis import strategies as st

from han import aidon
from vlib import gen_cosem as C
from vlib.pool import PRELUDES, run_prelude
from vlib.runner import Check, HypClause, Info, fail, guarded

logging.disable(logging.CRITICAL)


def oracle(case) -> Info:
    with C.local_tz(len(repr(case))):  # the process's local time zone is part of the environment: results must not depend on it
        return _oracle_tz(case)


def _oracle_tz(case) -> Info:
    layout, elements, apdu = case[0], [tuple(e) for e in case[1]], case[2]
    prelude = case[3] if len(case) > 3 else "none"
    run_prelude(prelude)
    body, exp = C.aidon_body(elements)
    C.scribble(guarded(aidon.decode_notification_body, body, what="aidon.decode_notification_body"))  # a first result, modified by the caller
    d_body = guarded(aidon.decode_notification_body, body, what="aidon.decode_notification_body")
    m = C.dict_mismatch(d_body, exp)
    if m:
        fail(f"decode_notification_body ({layout}): {m}; body {body.hex()[:600]}", sig="body:" + m.split(":")[0][:40])
    apdu_dt, tagged = (None, False) if apdu is None else (tuple(apdu[0]), apdu[1])
    frame = C.llc_apdu(body, apdu_dt, tagged)
    C.scribble(guarded(aidon.decode_frame_content, frame, what="aidon.decode_frame_content"))
    d_frame = guarded(aidon.decode_frame_content, frame, what="aidon.decode_frame_content")
    m = C.dict_mismatch(d_frame, exp)
    if m:
        fail(f"decode_frame_content ({layout}): {m}; frame {frame.hex()[:600]}", sig="frame:" + m.split(":")[0][:40])
    if d_frame != d_body:
        fail(f"frame and body decoding differ for {body.hex()[:300]}", sig="frame-vs-body")
    regs = [e for e in elements if e[0] == "reg"]
    bounds = {"u32": (0, 2**32 - 1, 2**31 - 1, 2**31), "u16": (0, 2**16 - 1, 2**15 - 1, 2**15), "i16": (2**15 - 1, -(2**15), -1)}
    boundary = any(e[3] in bounds[e[2]] or e[3] < 0 for e in regs)
    odd_scaler = any(e[4] not in (-1, 0, 1) for e in regs)
    classes = [f"layout:{layout}", f"prelude:{prelude}"]
    if any(e[3] < 0 for e in regs):
        classes.append("negative-register")
    if odd_scaler:
        classes.append("scaler-outside-+-1")
    if any(isinstance(v, C.Num) and v.value.denominator != 1 for v in exp.values()):
        classes.append("non-integral-result")
    return Info(nontrivial=bool(regs) and (boundary or odd_scaler), classes=tuple(classes), sample={"layout": layout, "body": body.hex()[:120], "n": len(elements)})


case_st = st.tuples(C.aidon_list_st(), st.none() | st.tuples(C.dt_spec_st(), st.booleans()), st.sampled_from(PRELUDES)).map(lambda t: (t[0][0], t[0][1], t[1], t[2]))


def interleave_oracle(case) -> Info:
    """Two decodes of different lists on two threads, the first paused at its k-th line inside han/ while the second runs to
    completion (the harness owns the schedule): both results must be what each list says."""
    from vlib import interleave

    m_a, m_b, frac = case
    _build = lambda m: C.aidon_body([tuple(e) for e in m[1]])[:2]
    body_a, exp_a = _build(m_a)
    body_b, exp_b = _build(m_b)
    total = interleave.count_han_lines(lambda: aidon.decode_notification_body(body_a))
    k = max(1, int(total * frac / 1000))
    res_a, res_b, reached = interleave.run_interleaved(lambda: aidon.decode_notification_body(body_a), lambda: aidon.decode_notification_body(body_b), k)
    for who, res, exp_, body_ in (("paused", res_a, exp_a, body_a), ("interleaving", res_b, exp_b, body_b)):
        if isinstance(res, BaseException):
            fail(f"{who} decode raised {type(res).__name__}: {res} (other decode ran while the first was paused at han line event {k} of {total})", sig="interleaved-raise")
        mm = C.dict_mismatch(res, exp_)
        if mm:
            fail(f"{who} decode, other decode run while the first was paused at han line event {k} of {total}: {mm}; body {body_.hex()[:200]}", sig="interleaved-threads")
    return Info(nontrivial=reached, classes=("paused-mid-decode" if reached else "finished-before-pause",))


interleave_st = st.tuples(C.aidon_list_st(), C.aidon_list_st(), st.integers(1, 999))


def build() -> Check:
    return Check(
        pid="C07",
        level="exploration",
        rule=(
            "Aidon lists built by a hand-written COSEM encoder: the documented layouts (NO list 1, list 2 one-/three-phase incl. IT net, "
            "list 3 one-/three-phase, SE list) and any duplicate-free subset/order of the known elements; registers over the full range of "
            "the transmitted type (u32/i16/u16, also types swapped between elements; boundaries 0, 1, +-max, sign boundary forced), scaler "
            "-3..3 or -6..6, any unit of the enumeration, arbitrary 7-bit ASCII strings (control characters and NUL included), clock from the C10 strategy; APDU date-time null, tagged or "
            "untagged; before each decode a drawn prelude lets another decoder (Aidon/Kaifa/Kamstrup/P1/all) process genuine messages in the same "
            "process. Oracle: decoded dictionary == expected (Fraction(register)*10^scaler: == the integer when integral, else == the "
            "correctly rounded double; texts verbatim; clock field-wise), exact key set, manufacturer 'Aidon', frame == body. Non-trivial "
            "= a register at a type boundary or negative, or a scaler outside {-1,0,1}. Distinct = case hash."
        ),
        assumptions=[
            "Every payload is decoded twice; the caller modifies the first returned dictionary before the second call (results must not be shared objects).","Field names from vlib/names.py; expected values computed with fractions.Fraction; scaler exponents kept within -6..6 so the scaled value is exactly representable in Decimal and the correctly rounded double is well defined."],
        clauses=[HypClause("thread-interleavings", interleave_st, interleave_oracle, quick=250, thorough=6000, doc="decode A paused at a drawn line inside han/ while decode B runs on another thread"), HypClause("lists", case_st, oracle, quick=6000, thorough=300000)],
    )
