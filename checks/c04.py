"""C04 - P1: a readout is reported valid only if its CRC16 and identification check out."""
from __future__ import annotations

import logging
import re

from hypothesis import strategies as st

from han import dlde
from vlib import gen_hdlc as GH
from vlib import gen_p1 as G
from vlib.p1_crc0 import CRC0_READOUTS
from vlib.ref_fcs import crc16_arc
from vlib.runner import Check, HypClause, Info, fail, guarded

logging.disable(logging.CRITICAL)

_HEX4 = re.compile(rb"\A[0-9A-Fa-f]{1,8}\Z")  # a checksum: hexadecimal digits only (normally four; other lengths denote another number)


LENGTH_STYLES = ["append-digit", "prepend-digit", "drop-last", "drop-first", "append-two"]


def analyse(raw: bytes):
    """Harness view of a readout's bytes (after the leading-whitespace strip the class documents).

    Returns dict: ident_ok (bool|None if undecodable), end (position of the '!' starting the last line or None),
    checksum (int|None: the hexadecimal text after that '!', if it is 1..8 hex digits), crc (CRC-16/ARC of '/'..'!').
    """
    r = raw.lstrip()
    first_lf = r.find(b"\n")
    ident_raw = r[: first_lf + 1] if first_lf >= 0 else r
    try:
        ident_ok = bool(G.IDENT_RE.match(ident_raw.decode("ascii").strip()))
    except UnicodeDecodeError:
        ident_ok = False
    body = r.rstrip(b"\r\n \t")
    nl = body.rfind(b"\n")
    end = nl + 1 if nl >= 0 and body[nl + 1 : nl + 2] == b"!" else None
    checksum = crc = None
    if end is not None:
        crc = crc16_arc(r[: end + 1])
        text = r[end + 1 :].strip()
        if _HEX4.match(text):
            checksum = int(text, 16)
    return {"r": r, "ident_ok": ident_ok, "end": end, "checksum": checksum, "crc": crc, "data_start": first_lf + 1}


ACCESS = ["none", "none", "identification_line", "payload+as_bytes", "expected_checksum", "str", "decode", "autodecode", "is_valid-twice"]


def touch(obj, access: str):
    """Use other parts of the object's public surface BEFORE asking is_valid: the answer must not depend on it."""
    try:
        if access == "identification_line":
            obj.identification_line  # noqa: B018
        elif access == "payload+as_bytes":
            obj.payload, obj.as_bytes, obj.message_type, len(obj)  # noqa: B018
        elif access == "expected_checksum":
            obj.expected_checksum, obj.end_line  # noqa: B018
        elif access == "str":
            str(obj), obj.data_lines  # noqa: B018
        elif access == "decode":
            dlde.decode_p1_readout(obj)
        elif access == "autodecode":
            from han import autodecoder

            autodecoder.AutoDecoder().decode_message(obj)
        elif access == "is_valid-twice":
            obj.is_valid  # noqa: B018
    except Exception:  # noqa: BLE001 - these accessors may legitimately raise on damaged readouts; only is_valid is judged
        pass


def judge(obj, raw: bytes, how: str, must_be_valid: bool, access: str = "none"):
    """S1/S2/S4 on one DataReadout object; S3 when must_be_valid. Returns 'valid'|'invalid'|'raised'."""
    a = analyse(raw)
    touch(obj, access)
    try:
        valid = obj.is_valid
    except Exception as exc:  # noqa: BLE001 - C14's subject; C04 neither passes nor fails the case
        if must_be_valid:
            fail(f"{how}: is_valid raised {type(exc).__name__} on a well-formed readout {raw!r:.200}", sig="s3-raised")
        return "raised"
    if valid is not True and valid is not False:
        fail(f"{how}: is_valid returned {valid!r}", sig="not-bool")
    if valid:
        if not a["ident_ok"]:
            fail(f"{how}: reported valid but the identification line is malformed: {raw!r:.200}", sig="s1-ident")
        if a["checksum"] is not None and a["checksum"] != a["crc"]:
            fail(
                f"{how}: reported valid although the transmitted checksum {a['checksum']:04X} differs from CRC16('/'..'!') = {a['crc']:04X}: {raw!r:.300}",
                sig="s2-checksum-zero" if a["checksum"] == 0 else "s2-checksum",
            )
        if a["end"] is not None:
            want = a["r"][a["data_start"] : a["end"]]
            got = guarded(lambda: obj.payload, what="payload")
            if got != want:
                fail(f"{how}: valid readout's payload {got!r:.120} != bytes between identification line and '!' {want!r:.120}", sig="s4-payload")
            if guarded(lambda: obj.as_bytes) != a["r"]:
                fail(f"{how}: as_bytes differs from the readout bytes", sig="s4-as-bytes")
    elif must_be_valid:
        fail(f"{how}: well-formed, correctly check-summed all-ASCII readout reported invalid: {raw!r:.300}", sig="s3-rejected")
    return "valid" if valid else "invalid"


def deliver_direct(raw: bytes):
    try:
        return dlde.DataReadout(raw)
    except (ValueError, IndexError):
        return None  # constructor documents ValueError for readouts without '/' or '!'


HISTORIES = ["fresh", "fresh", "after-valid-readout", "after-abandoned-long-readout", "after-long-line", "after-invalid-readout", "after-ident-lines"]


def history_bytes(kind: str, seed: int) -> bytes:
    """What the same reader instance has seen before the readout under test (always ends at a line end, so the
    readout under test starts on a fresh line)."""
    if kind == "fresh":
        return b""
    if kind == "after-valid-readout":
        return G.build_readout((("LGF", "5", "", "E360"), 3, seed, "upper", True))
    if kind == "after-abandoned-long-readout":  # identification line + more than 8191 bytes of data lines, never an end line
        return b"/ABC5abandoned\r\n" + G.expand_lines(330, seed, False)
    if kind == "after-long-line":
        return b"/ABC5x\r\n1-0:1.8.0(" + b"7" * 9000 + b")\r\n"
    if kind == "after-invalid-readout":
        return b"/ABC5x\r\n1-0:1.8.0(1*kWh)\r\n!FFFF\r\n"
    if kind == "after-ident-lines":
        return b"/ABC5one\r\n/ABC5two\r\n!\r\n"
    raise ValueError(kind)


def deliver_reader(raw: bytes, cuts, history=b""):
    reader = dlde.ModeDReader()
    out = []
    if history:
        try:
            for ch in GH.split(history, ("fixed", 1000, 0)):
                reader.read(ch)
        except Exception:  # noqa: BLE001 - C14's subject
            return None
    for ch in GH.split(raw, cuts):
        try:
            out.extend(reader.read(ch))
        except Exception:  # noqa: BLE001 - C14's subject
            return None
    return out


def oracle(case) -> Info:
    """case = (base readout bytes, mutation, cuts)."""
    base, mut, cuts = case[0], tuple(case[1]), tuple(case[2])
    hist_kind = case[3] if len(case) > 3 else "fresh"
    access = case[4] if len(case) > 4 else "none"
    a0 = analyse(base)
    assert a0["ident_ok"] and a0["end"] is not None and (a0["checksum"] is None or a0["checksum"] == a0["crc"]), "generator produced a bad base readout"
    kind = mut[0]
    raw = bytearray(base)
    end = a0["end"]
    if kind == "bitflip":
        bit = mut[1] % (len(raw) * 8)
        raw[bit // 8] ^= 1 << (bit % 8)
    elif kind == "checksum":
        style, val = mut[1], mut[2]
        body0 = bytes(raw[: end + 1])
        variants = {
            "of-crlf-variant": crc16_arc(body0.replace(b"\r\n", b"\n").replace(b"\n", b"\r\n")),  # checksum of the CR LF form of a bare-LF readout (and vice versa)
            "of-lf-variant": crc16_arc(body0.replace(b"\r\n", b"\n")),
            "without-bang": crc16_arc(body0[:-1]),
            "without-slash": crc16_arc(body0[1:]),
            "of-data-only": crc16_arc(body0[a0["data_start"] :]),
            "ccitt-init": crc16_arc(b"\xff\xff" + body0),
        }
        v = 0 if style in LENGTH_STYLES else {"zero": 0, "plus1": (a0["crc"] + 1) & 0xFFFF, "minus1": (a0["crc"] - 1) & 0xFFFF, "swapped": ((a0["crc"] & 0xFF) << 8) | (a0["crc"] >> 8), "drawn": val, "true": a0["crc"], **variants}[style]
        text = f"{v:04X}"
        if style in LENGTH_STYLES:  # the true checksum with a digit added or dropped: a different number (or the same one with a leading zero)
            t4, dgt = f"{a0['crc']:04X}", "0123456789ABCDEF"[val % 16]
            text = {"append-digit": t4 + dgt, "prepend-digit": dgt + t4, "drop-last": t4[:3], "drop-first": t4[1:], "append-two": t4 + dgt + "0123456789ABCDEF"[(val >> 4) % 16]}[style]
        case_style = mut[3]
        text = text.lower() if case_style == "lower" else ("".join(c.lower() if i % 2 else c for i, c in enumerate(text)) if case_style == "mixed" else text)
        raw = bytearray(bytes(raw[: end + 1]) + text.encode() + b"\r\n")
    elif kind == "nochecksum":
        raw = bytearray(bytes(raw[: end + 1]) + b"\r\n")
    elif kind == "ident":
        how = mut[1]
        lf = raw.index(b"\n")
        line = bytes(raw[:lf]).rstrip(b"\r")
        if how == "lower":
            line = b"/" + line[1:3].lower() + line[3:]
        elif how == "nobaud":
            line = line[:4] + b"x" + line[5:]
        elif how == "long":
            line = line + b"0123456789ABCDEFG"
        elif how == "ctrl":
            line = line[:5] + b"\x07" + line[5:]
        elif how == "digitman":
            line = b"/1" + line[2:]
        elif how == "highbit":  # an 8-bit character somewhere in the identification line (never well-formed: the line is ASCII)
            i = 1 + mut[3] % (len(line) - 1)
            line = line[:i] + bytes([line[i] | 0x80]) + line[i + 1 :]
        elif how == "class-boundary-char":  # a character adjacent to the allowed class at one of the structural positions
            pos = 1 + mut[3] % 4  # manufacturer letters 1..3, baud digit 4
            repl = b"@[`{/:"[(mut[3] // 4) % 6]
            line = line[:pos] + bytes([repl]) + line[pos + 1 :]
        elif how == "trailing-8bit-space":
            line = line + bytes([0x85 if mut[3] % 2 else 0xA0])
        raw = bytearray(line + b"\r\n" + bytes(raw[lf + 1 :]))
        if mut[2]:  # keep the checksum consistent with the damaged line, so only the identification is wrong
            a1 = analyse(bytes(raw))
            if a1["end"] is not None and a1["checksum"] is not None:
                raw = bytearray(bytes(raw[: a1["end"] + 1]) + f"{a1['crc']:04X}".encode() + b"\r\n")
    raw = bytes(raw)
    untouched = kind == "none" or (kind == "checksum" and mut[1] == "true")
    if kind == "checksum" and mut[1] not in ("zero", "plus1", "minus1", "swapped", "drawn", "true", *LENGTH_STYLES) and analyse(bytes(raw))["checksum"] == a0["crc"]:
        untouched = True  # the 'wrong' recipe happens to give the true CRC (e.g. CR LF variant of a CR LF readout)
    a = analyse(raw)
    classes = [f"mut:{kind}" + (f":{mut[1]}" if kind in ("checksum", "ident") else ""), f"access-first:{access}"]
    results = []
    obj = deliver_direct(raw)
    if obj is not None:
        results.append(judge(obj, raw, f"DataReadout(bytes) [after {access}]", untouched and raw.isascii(), access))
    elif untouched:
        fail(f"DataReadout() refused a well-formed readout {raw!r:.200}", sig="s3-ctor")
    got = deliver_reader(raw, cuts, history_bytes(hist_kind, len(base)))
    classes.append(f"reader-history:{hist_kind}")
    if got is None:
        classes.append("reader-raised")
    else:
        if untouched and len(got) != 1:
            fail(f"reader returned {len(got)} readouts for one well-formed readout {raw!r:.200}", sig="s3-reader-count")
        for o in got:
            ob = guarded(lambda o=o: o.as_bytes)
            results.append(judge(o, ob, f"ModeDReader.read [after {access}]", untouched and raw.isascii() and ob == raw, access))
    for r in results:
        classes.append(f"is_valid:{r}")
    wrong_checksum = a["checksum"] is not None and a["checksum"] != a["crc"]
    if wrong_checksum:
        classes.append("checksum-wrong")
        if a["checksum"] == 0:
            classes.append("checksum-wrong-0000")
    if a["checksum"] == 0 and a["crc"] == 0:
        classes.append("checksum-true-0000")
    return Info(nontrivial=(wrong_checksum or untouched) and bool(results), classes=tuple(classes))


@st.composite
def case_st(draw):
    if draw(st.integers(0, 9)) == 9:
        base = draw(st.sampled_from(CRC0_READOUTS))
    else:
        spec = draw(G.readout_spec_st(max_lines=12))
        base = G.build_readout(spec)
        if draw(st.integers(0, 4)) == 4:
            # the same readout with bare LF line ends (checksum recomputed over the bytes as sent)
            a = analyse(base)
            body = base[: a["end"] + 1].replace(b"\r\n", b"\n")
            base = body + (f"{crc16_arc(body):04X}".encode() if a["checksum"] is not None else b"") + b"\n"
    kind = draw(st.sampled_from(["none", "bitflip", "bitflip", "checksum", "checksum", "checksum", "nochecksum", "ident"]))
    if kind == "bitflip":
        mut = ("bitflip", draw(st.integers(0, 10**7)))
    elif kind == "checksum":
        mut = ("checksum", draw(st.sampled_from(["zero", "zero", "plus1", "minus1", "swapped", "drawn", "true", "of-crlf-variant", "of-crlf-variant", "of-lf-variant", "without-bang", "without-slash", "of-data-only", "ccitt-init"] + LENGTH_STYLES)), draw(st.integers(0, 0xFFFF)), draw(st.sampled_from(["upper", "lower", "mixed"])))
    elif kind == "ident":
        mut = ("ident", draw(st.sampled_from(["lower", "nobaud", "long", "ctrl", "digitman", "highbit", "highbit", "trailing-8bit-space", "class-boundary-char", "class-boundary-char"])), draw(st.booleans()), draw(st.integers(0, 63)))
    else:
        mut = (kind,)
    return (base, mut, draw(GH.cuts_st()), draw(st.sampled_from(HISTORIES)), draw(st.sampled_from(ACCESS)))


def build() -> Check:
    return Check(
        pid="C04",
        level="exploration",
        rule=(
            "Base readouts from the IEC 62056-21 grammar (varied identification lines with up to 8 escape sequences, 0..12 data lines, CR LF or bare LF line ends, checksum upper/lower/absent) plus six "
            "readouts constructed to have true CRC 0x0000; then one mutation: none | any single bit flipped | checksum field replaced "
            "(0000, true+-1, octets swapped, drawn value, true value, the CRC of a transformed copy - CR LF<->LF line ends, without '!' or '/', data block only, other initial value; upper/lower/mixed case) | checksum removed | identification line "
            "damaged (lower-case letters, missing baud digit, >16 id chars, control char, digit in manufacturer id, bit 7 set on any "
            "character, trailing 0x85/0xA0, a character adjacent to the allowed class (@ [ ` { / :) in the manufacturer id or baud position; checksum recomputed or not). Each is delivered directly (DataReadout(bytes)) and through a ModeDReader with a drawn splitting and a drawn reader history (fresh, after a valid readout, after an abandoned >8191-byte readout, after an over-long line, after an invalid readout, after stray identification lines). Non-trivial = the "
            "mutated readout carries a syntactic 4-hex checksum that differs from the true CRC, or it is untouched, and at least one object "
            "was judged. The 0000-on-nonzero-CRC class is counted separately (checksum-wrong-0000). Distinct = case hash."
        ),
        assumptions=[
            "CRC reference = bit-serial CRC-16/ARC (vlib/ref_fcs.py).",
            "Before is_valid is asked, a drawn other part of the object's surface is used (identification_line, payload/as_bytes, expected_checksum, str, decode_p1_readout, AutoDecoder.decode_message, is_valid itself): the verdict must not depend on the order of access.",
            "The end character is the '!' that starts the last line; the checksum claim is made when the text after it consists of 1..8 hexadecimal digits (normally four; the true checksum with a digit added or dropped is among the mutations).",
            "Identification well-formedness uses the harness's own, deliberately permissive pattern (any printable ID of <=16 chars).",
            "If is_valid raises, C04 neither passes nor fails the case (counted as is_valid:raised; raising is C14's subject).",
            "Non-ASCII data bytes are not required to invalidate a readout (the property does not say so).",
        ],
        clauses=[HypClause("readouts", case_st, oracle, quick=30000, thorough=400000)],
    )
