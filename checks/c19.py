"""C19 - Reader memory stays bounded on endless streams."""
from __future__ import annotations

import gc
import logging
import random
import sys
import types

from han import dlde, hdlc
from vlib import gen_p1 as GP
from vlib import resync
from vlib.ref_hdlc import ESC, FLAG
from vlib.runner import Check, EnumClause, HypClause, Info, fail, guarded

logging.disable(logging.CRITICAL)

_SKIP = (type, types.ModuleType, types.FunctionType, types.BuiltinFunctionType, types.MethodType, types.CodeType)


def deep_size(obj) -> int:
    """Sum of sys.getsizeof over every object reachable from obj (classes, modules and functions excluded)."""
    seen = set()
    stack = [obj]
    total = 0
    while stack:
        o = stack.pop()
        if id(o) in seen or isinstance(o, _SKIP):
            continue
        seen.add(id(o))
        total += sys.getsizeof(o)
        stack.extend(gc.get_referents(o))
    return total


# ---- endless stream patterns: gen(chunk_size, seed) yields chunks lazily (the harness holds one chunk) -------------


def _cycle(block: bytes, chunk: int, total: int):
    """Chunks of an endless repetition of block."""
    reps = (chunk // len(block)) + 2
    big = block * reps
    off = 0
    sent = 0
    while sent < total:
        yield big[off : off + chunk]
        off = (off + chunk) % len(block)
        sent += chunk


def _random(alphabet, chunk, total, seed):
    rnd = random.Random(seed)
    sent = 0
    while sent < total:
        if alphabet is None:
            yield rnd.randbytes(chunk)
        else:
            yield bytes(rnd.choices(alphabet, k=chunk))
        sent += chunk


_FR = resync.clean_frames(3, True, False, 11)
_RO = resync.clean_readouts(3, 11)
from vlib import gen_hdlc as _GH  # noqa: E402

_SEG = [_GH.build_frame(0xA, 1, b"\x03", b"\x21", 0x13, bytes([i, 1, 2, 3])) for i in range(3)]  # segmentation bit set (format A8xx)

HDLC_PATTERNS = {
    "all-flags": lambda c, t, s: _cycle(bytes([FLAG]), c, t),
    "flag-escape": lambda c, t, s: _cycle(bytes([FLAG, ESC]), c, t),
    "flag-junk": lambda c, t, s: _cycle(bytes([FLAG, 0x01, 0x02]), c, t),
    "flag-flag-junk5": lambda c, t, s: _cycle(bytes([FLAG, FLAG, 0xA0, 0x07, 0x01, 0x01, 0x10]), c, t),
    "valid-frames": lambda c, t, s: _cycle(b"".join(bytes([FLAG]) + f for f in _FR), c, t),
    "valid-frames-all-different": lambda c, t, s: _varying(_var_frame, c, t),
    "aborted-frames-back-to-back": lambda c, t, s: _cycle(bytes([FLAG]) + _FR[0][:10] + bytes([ESC]), c, t),
    "never-ending-frame": lambda c, t, s: (bytes([FLAG]) + b"\xa0\x20\x01\x01\x10" if i == 0 else b"\x55" * c for i, _ in enumerate(range(t // c + 1))),
    "escapes-only": lambda c, t, s: _cycle(bytes([ESC]), c, t),
    "no-flag-random": lambda c, t, s: _random([o for o in range(256) if o != FLAG], c, t, s),
    "random": lambda c, t, s: _random(None, c, t, s),
    "dense": lambda c, t, s: _random([FLAG, ESC, 0x5E, 0x5D, 0xA0, 0x00, 0x01, 0x02], c, t, s),
    # complete header announcing FEWER octets than arrive, then flags only (flags inside an unfinished frame are data without stuffing)
    "overrun-frame-then-flags": lambda c, t, s: _prefixed(bytes([FLAG]) + b"\xa0\x05\x03\x03\x13\xaa\xbb\xcc", _cycle(bytes([FLAG]), c, t)),
    "overrun-frame-then-flags-and-escapes": lambda c, t, s: _prefixed(bytes([FLAG]) + b"\xa0\x05\x03\x03\x13\xaa\xbb\xcc", _cycle(bytes([FLAG, FLAG, ESC]), c, t)),
    "segmented-valid-frames": lambda c, t, s: _cycle(b"".join(bytes([FLAG]) + f for f in _SEG), c, t),
    "hdr-2047-then-zeros": lambda c, t, s: _cycle(bytes([FLAG]) + b"\xa7\xff\x01\x01\x10\x38\x83" + bytes(2500), c, t),
}

P1_PATTERNS = {
    "ident-lines-no-end": lambda c, t, s: _cycle(b"/ABC5noise\r\n", c, t),
    "slash-no-lf": lambda c, t, s: (b"/" + b"x" * (c - 1) if i == 0 else b"x" * c for i, _ in enumerate(range(t // c + 1))),
    "slashes-no-lf": lambda c, t, s: _cycle(b"/abc", c, t),
    "ident-endless-data": lambda c, t, s: (b"/ABC5noise\r\n" if i == 0 else (b"1-0:1.8.0(00001605.055*kWh)\r\n" * (c // 29 + 1))[:c] for i, _ in enumerate(range(t // c + 1))),
    "ident-endless-data-aligned": lambda c, t, s: _cycle(b"1-0:1.8.0(00001605.055*kWh)\r\n", c, t) if False else _prefixed(b"/ABC5noise\r\n", _cycle(b"1-0:1.8.0(00001605.055*kWh)\r\n", c, t)),
    "valid-readouts": lambda c, t, s: _cycle(b"".join(_RO), c, t),
    "valid-readouts-all-different": lambda c, t, s: _varying(_var_readout, c, t),
    "random-ascii": lambda c, t, s: _random(list(b"/!\r\n0123456789ABCDEF().*:- kWh"), c, t, s),
    "random": lambda c, t, s: _random(None, c, t, s),
    "no-lf-random": lambda c, t, s: _random([o for o in range(256) if o != 0x0A], c, t, s),
    "data-lines-only": lambda c, t, s: _cycle(b"1-0:1.8.0(00001605.055*kWh)\r\n", c, t),
    "end-lines-only": lambda c, t, s: _cycle(b"!ABCD\r\n", c, t),
    "ident-then-no-lf": lambda c, t, s: _prefixed(b"/ABC5noise\r\n", _cycle(b"0123456789", c, t)),
}


def _varying(make, chunk, total):
    """Endless stream of messages make(i), i = 0, 1, 2, ... (every message different), cut into chunks."""
    buf = bytearray()
    i = 0
    sent = 0
    while sent < total:
        while len(buf) < chunk:
            buf += make(i)
            i += 1
        yield bytes(buf[:chunk])
        del buf[:chunk]
        sent += chunk


def _var_readout(i):
    return GP.add_end(f"/ABC5id{i:09d}\r\n0-0:96.1.9({i:08d})\r\n".encode(), "none")


def _var_frame(i):
    return bytes([FLAG]) + _GH.build_frame(0xA, 0, bytes([(i * 2 + 1) & 0xFF]), bytes([(i >> 7) & 0xFE, ((i >> 3) & 0xFE) | 1]), 0x10, b"%08d" % i)


def _prefixed(prefix, it):
    yield prefix
    yield from it


CHUNKS_QUICK = [1, 7, 64, 1000, 4096, 65536]
CHUNKS_THOROUGH = [1, 2, 7, 64, 100, 1000, 4096, 8192, 16384, 65536]
HDLC_CFGS = [(False, False), (True, False), (True, True), (False, True)]


def _cases(tier):
    chunks = CHUNKS_QUICK if tier == "quick" else CHUNKS_THOROUGH
    out = []
    for name in HDLC_PATTERNS:
        for ci, cfg in enumerate(HDLC_CFGS if tier == "thorough" else HDLC_CFGS[:2] + HDLC_CFGS[2:3]):
            for ch in chunks:
                out.append(("hdlc", name, tuple(cfg), ch))
    for name in P1_PATTERNS:
        for ch in chunks:
            out.append(("p1", name, (), ch))
    return out


def _total_for(tier, chunk):
    if tier == "quick":
        return 256 * 1024 if chunk == 1 else 1024 * 1024
    return 2 * 1024 * 1024 if chunk <= 2 else 16 * 1024 * 1024


def bound_for(kind, chunk):
    if kind == "hdlc":
        return 3 * 2047 + 4096 + 2 * chunk
    return 4 * 8192 + 4096 + 2 * chunk


def oracle(case) -> Info:
    kind, name, cfg, chunk, total = case[0], case[1], tuple(case[2]), case[3], case[4]
    seed = case[5] if len(case) > 5 else 1
    if kind == "hdlc":
        reader = hdlc.HdlcFrameReader(use_octet_stuffing=cfg[0], use_abort_sequence=cfg[1])
        gen = HDLC_PATTERNS[name](chunk, total, seed)
    else:
        reader = dlde.ModeDReader()
        gen = P1_PATTERNS[name](chunk, total, seed)
    bound = bound_for(kind, chunk)
    fed = 0
    ncalls = 0
    every = max(1, (total // chunk) // 64)
    trend = {}
    peak = 0
    for ch in gen:
        guarded(reader.read, ch, what=f"{type(reader).__name__}.read")
        fed += len(ch)
        ncalls += 1
        if ncalls % every == 0 or fed >= total:
            size = deep_size(reader)
            peak = max(peak, size)
            if size > bound:
                fail(
                    f"{kind} reader {cfg} retains {size} bytes after {fed} bytes of pattern '{name}' in {chunk}-byte chunks (bound {bound} = constant + 2 x chunk)",
                    sig=f"{kind}-{name}",
                )
            for q in (25, 50, 100):
                if q not in trend and fed * 100 >= total * q:
                    trend[q] = size
    return Info(
        nontrivial=fed >= 16 * bound,
        classes=(f"{kind}:{name}",),
        sample={"reader": kind, "cfg": list(cfg), "pattern": name, "chunk": chunk, "fed": fed, "peak_deep_size": peak, "bound": bound, "size_at_25_50_100pct": [trend.get(25), trend.get(50), trend.get(100)]},
    )


# ---- Hypothesis-drawn repeating blocks ------------------------------------------------------------------------------

from hypothesis import strategies as st  # noqa: E402

_H_TOK = st.one_of(
    st.sampled_from([bytes([FLAG]), bytes([ESC]), bytes([FLAG, FLAG]), bytes([ESC, FLAG]), b"\xa0", b"\xa0\x07\x01\x01\x10", b"\x01", b"\x02", _FR[0], _FR[0][:9], bytes([FLAG]) + _FR[1] + bytes([FLAG]),
                     bytes([FLAG]) + b"\xa0\x05\x03\x03\x13\xaa\xbb\xcc", bytes([FLAG]) + _SEG[0] + bytes([FLAG]), bytes([FLAG]) + _SEG[1]]),
    st.binary(min_size=1, max_size=6),
)
_P_TOK = st.one_of(
    st.sampled_from([b"/", b"!", b"\n", b"\r\n", b"/ABC5noise\r\n", b"/ABC5", b"1-0:1.8.0(00001605.055*kWh)\r\n", b"1-0:1.8.0(", b"!ABCD\r\n", b"!", _RO[0], _RO[0][:40], b"x" * 50]),
    st.binary(min_size=1, max_size=6),
)
_CHUNK = st.sampled_from([1, 3, 7, 64, 100, 1000, 4096, 8192, 65536]) | st.integers(1, 20000)


@st.composite
def drawn_case_st(draw):
    kind = draw(st.sampled_from(["hdlc", "p1"]))
    toks = draw(st.lists(_H_TOK if kind == "hdlc" else _P_TOK, min_size=1, max_size=6))
    prefix = draw(st.sampled_from([b"", b""]) | (_H_TOK if kind == "hdlc" else _P_TOK))
    cfg = draw(st.sampled_from(HDLC_CFGS)) if kind == "hdlc" else ()
    return (kind, prefix, b"".join(toks), tuple(cfg), draw(_CHUNK))


def drawn_oracle(case) -> Info:
    kind, prefix, block, cfg, chunk = case[0], case[1], case[2], tuple(case[3]), case[4]
    total = 96 * 1024 if chunk < 8 else 384 * 1024
    reader = hdlc.HdlcFrameReader(use_octet_stuffing=cfg[0], use_abort_sequence=cfg[1]) if kind == "hdlc" else dlde.ModeDReader()
    bound = bound_for(kind, chunk)
    fed = ncalls = 0
    every = max(1, (total // chunk) // 24)
    for ch in _prefixed(prefix, _cycle(block, chunk, total)):
        guarded(reader.read, ch, what=f"{type(reader).__name__}.read")
        fed += len(ch)
        ncalls += 1
        if ncalls % every == 0:
            size = deep_size(reader)
            if size > bound:
                fail(f"{kind} reader {cfg} retains {size} bytes after {fed} bytes of prefix {prefix!r} + endless repetition of {block!r:.120} in {chunk}-byte chunks (bound {bound})", sig=f"{kind}-drawn")
    return Info(nontrivial=fed >= 8 * bound and len(block) > 1, classes=(f"{kind}:drawn",), sample={"reader": kind, "cfg": list(cfg), "prefix": prefix.hex(), "block": block.hex()[:80], "chunk": chunk, "fed": fed})


# ---- an unfinished frame / readout followed by endless repetition of ONE octet value, for every value -------------------------------


def fill_case(i, tier):
    v, which = i % 256, i // 256
    return ("fill", v, which)


def fill_oracle(case) -> Info:
    _k, v, which = case
    total = 160 * 1024
    chunk = 4096
    if which < 2:
        cfg = HDLC_CFGS[which]
        reader = hdlc.HdlcFrameReader(use_octet_stuffing=cfg[0], use_abort_sequence=cfg[1])
        prefix = bytes([FLAG]) + _FR[0][:12]  # complete header, frame not finished
        kind = "hdlc"
    else:
        cfg = ()
        reader = dlde.ModeDReader()
        prefix = b"/ABC5noise\r\n1-0:1.8.0(1"
        kind = "p1"
    bound = bound_for(kind, chunk)
    guarded(reader.read, prefix)
    fed = 0
    blk = bytes([v]) * chunk
    while fed < total:
        guarded(reader.read, blk, what=f"{type(reader).__name__}.read")
        fed += chunk
        if fed % (16 * chunk) == 0:
            size = deep_size(reader)
            if size > bound:
                fail(f"{kind} reader {cfg} retains {size} bytes after an unfinished message followed by {fed} octets of {v:#04x} (bound {bound})", sig=f"{kind}-fill")
    return Info(nontrivial=True, classes=(f"fill:{kind}",), sample={"reader": kind, "cfg": list(cfg), "fill_octet": v, "fed": fed})


# ---- one huge chunk, then small ones: the bound depends on the LAST chunk only ----------------------------------------------------------

BIG = 512 * 1024
_BTS = [("hdlc", n, cfg) for n in HDLC_PATTERNS for cfg in HDLC_CFGS[:3]] + [("p1", n, ()) for n in P1_PATTERNS]


def bts_oracle(case) -> Info:
    kind, name, cfg = case[0], case[1], tuple(case[2])
    small = 64
    pats = HDLC_PATTERNS if kind == "hdlc" else P1_PATTERNS
    stream = b"".join(pats[name](65536, BIG + 65536, 1))
    reader = hdlc.HdlcFrameReader(use_octet_stuffing=cfg[0], use_abort_sequence=cfg[1]) if kind == "hdlc" else dlde.ModeDReader()
    guarded(reader.read, stream[:BIG], what=f"{type(reader).__name__}.read")
    bound = bound_for(kind, small)
    for k in range(48):
        ch = stream[BIG + k * small : BIG + (k + 1) * small]
        if name in ("never-ending-frame", "slash-no-lf", "ident-then-no-lf", "no-flag-random", "no-lf-random") or k % 2:
            ch = bytes(b for b in ch if b not in (FLAG, 0x0A)) or b"\x55"  # also: no flag / line end arrives for a while
        guarded(reader.read, ch, what=f"{type(reader).__name__}.read")
        size = deep_size(reader)
        if size > bound:
            fail(f"{kind} reader {cfg} retains {size} bytes after one {BIG}-byte chunk of pattern '{name}' followed by {k + 1} chunks of <= {small} bytes (bound {bound} = constant + 2 x LAST chunk)", sig=f"{kind}-big-then-small")
    return Info(nontrivial=True, classes=(f"{kind}:{name}",), sample={"reader": kind, "cfg": list(cfg), "pattern": name, "big": BIG, "small": small})


# ---- memory of the whole process (caches, class-level tables), not only what hangs off the reader object --------------------------------

_PG = [("hdlc", n, cfg, ch) for n in ("valid-frames-all-different", "random", "dense") for cfg in HDLC_CFGS[:2] for ch in (64, 4096)] + [
    ("p1", n, (), ch) for n in ("valid-readouts-all-different", "slash-lines-all-different", "ident-lines-all-different", "random-ascii", "random") for ch in (64, 4096)
]


def _var_slash_line(i):
    return f"/{i:x} noise {i * 7919:012d}\r\n".encode()


def _var_ident_line(i):
    return f"/ABC5{i:011d}\r\n".encode()


P1_PATTERNS["slash-lines-all-different"] = lambda c, t, s: _varying(_var_slash_line, c, t)
P1_PATTERNS["ident-lines-all-different"] = lambda c, t, s: _varying(_var_ident_line, c, t)


def pg_oracle(case) -> Info:
    import tracemalloc

    kind, name, cfg, chunk = case[0], case[1], tuple(case[2]), case[3]
    total = 448 * 1024
    pats = HDLC_PATTERNS if kind == "hdlc" else P1_PATTERNS
    reader = hdlc.HdlcFrameReader(use_octet_stuffing=cfg[0], use_abort_sequence=cfg[1]) if kind == "hdlc" else dlde.ModeDReader()
    bound = bound_for(kind, chunk)
    gen = pats[name](chunk, total, 1)
    fed = 0
    base = None
    tracemalloc.start(1)
    try:
        for ch in gen:
            guarded(reader.read, ch, what=f"{type(reader).__name__}.read")
            fed += len(ch)
            if base is None and fed >= total // 4:
                gc.collect()
                base = (tracemalloc.get_traced_memory()[0], fed)
        gc.collect()
        end = tracemalloc.get_traced_memory()[0]
    finally:
        tracemalloc.stop()
    growth = end - base[0]
    if growth > bound:
        fail(
            f"process memory (tracemalloc, after gc) grew by {growth} bytes between {base[1]} and {fed} bytes of pattern '{name}' fed to one {kind} reader {cfg} in {chunk}-byte chunks "
            f"(bound {bound}); the reader object itself holds {deep_size(reader)} bytes - the rest is retained elsewhere (a cache or class-level table filled by read())",
            sig=f"{kind}-process-growth",
        )
    return Info(nontrivial=True, classes=(f"{kind}:{name}",), sample={"reader": kind, "cfg": list(cfg), "pattern": name, "chunk": chunk, "fed": fed, "growth": growth, "bound": bound})


def case_at(i, tier):
    import os

    kind, name, cfg, chunk = _cases(tier)[i]
    return (kind, name, cfg, chunk, _total_for(tier, chunk), int(os.environ.get("VERIF_SEED", "1") or 1))


def build() -> Check:
    return Check(
        pid="C19",
        level="exploration",
        rule=(
            "fill-octets: an unfinished frame (complete header) / an unfinished readout followed by 160 KiB of ONE octet value, for all 256 values x "
            "{HDLC plain, HDLC stuffing, P1}. drawn: Hypothesis draws a reader, configuration, a prefix token, a block of 1..6 tokens (flags, escapes, frame pieces / '/', '!', LF, "
            "identification and data line pieces, random octets) repeated endlessly, and a chunk size 1..65536; 96-384 KiB per case. patterns: "
            "Endless-stream patterns generated lazily (HDLC: all flags; flag+escape; flag+short junk; flag,flag,5 junk octets; valid frames back "
            "to back; valid frames that are all different; aborted frames back to back; never-ending frame; escapes only; flag-free random; random; 7E/7D-dense random; header announcing 2047 then zeros; complete header announcing fewer octets than arrive, then flags only; valid frames with the segmentation bit set back to back - "
            "P1: identification lines without end line; '/' then no LF ever; '/abc' repeated without LF; identification + endless data "
            "lines; valid readouts back to back; valid readouts that are all different (varying identification line); random ASCII; random bytes; LF-free random; data lines only; end lines only; "
            "identification then digits without LF) x chunk sizes {1,7,64,1000,4096,65536} (thorough: 10 sizes up to 65536) x HDLC "
            "configurations, 1 MiB per case in the quick tier (256 KiB bytewise) and 16 MiB in the thorough tier; random patterns are "
            "seeded by VERIF_SEED. After every k-th read() (64 samples per case) the deep size of the reader must stay below a bound "
            "that does not depend on the bytes fed: HDLC 3*2047+4096+2*chunk, P1 4*8192+4096+2*chunk. Non-trivial = bytes fed >= 16 x "
            "bound; distinct = (reader, configuration, pattern, chunk size)."
            " big-then-small: every pattern as ONE 512 KiB chunk followed by 48 chunks of <= 64 bytes (every other one stripped of flags / line ends), deep size after every small chunk <= constant + 2 x 64. process-growth: all-different frames / readouts / '/' lines / identification lines and random noise, 448 KiB in 64- and 4096-byte chunks under tracemalloc; growth of the process's traced memory (after gc) between 25 % and 100 % of the stream <= the same bound."
        ),
        assumptions=[
            "Deep size = sum of sys.getsizeof over objects reachable from the reader via gc.get_referents, excluding classes, modules and functions.",
            "The bound allows 2 x chunk for bytearray over-allocation and the chunk being buffered.",
            "This is a bounded experiment: it catches growth visible within the bytes fed, it does not prove a bound.",
        ],
        clauses=[
            HypClause("drawn", drawn_case_st, drawn_oracle, quick=400, thorough=8000, doc="Hypothesis-drawn prefix + endlessly repeated block of up to 6 tokens, drawn chunk size, 96-384 KiB per case"),
            EnumClause("fill-octets", size=lambda tier: 256 * 3, case_at=fill_case, oracle=fill_oracle, doc="unfinished frame/readout + endless run of one octet value, all 256 values x {HDLC plain, HDLC stuffing, P1}"),
            EnumClause("big-then-small", size=lambda tier: len(_BTS), case_at=lambda i, tier: _BTS[i], oracle=bts_oracle, doc="every pattern: one 512 KiB chunk, then 48 chunks of <= 64 bytes (every other one without flag / line end); bound = constant + 2 x 64 after each small chunk", exhaustive=False),
            EnumClause("process-growth", size=lambda tier: len(_PG), case_at=lambda i, tier: _PG[i], oracle=pg_oracle, doc="all-different frames / readouts / '/' lines / identification lines and random noise: growth of the PROCESS's traced memory between 25% and 100% of 448 KiB must stay below the same bound (catches caches and class-level tables)", exhaustive=False),
            EnumClause("patterns", size=lambda tier: len(_cases(tier)), case_at=case_at, oracle=oracle, doc="pattern x chunk size grid", exhaustive=False),
        ],
    )
