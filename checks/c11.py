"""C11 - P1 readouts parse into the transmitted data sets and decode with exact units."""
from __future__ import annotations

import datetime
import logging
from fractions import Fraction

from hypothesis import strategies as st

from han import autodecoder, dlde
from vlib import gen_p1 as G
from vlib.names import NAME_OF, name_of
from vlib.pool import PRELUDES, run_prelude
from vlib.runner import Check, HypClause, Info, fail, guarded

logging.disable(logging.CRITICAL)

PLAUSIBLE_UNKNOWN = ["13.7.0", "14.7.0", "33.7.0", "53.7.0", "73.7.0", "81.7.40", "96.7.21", "96.14.0", "0.2.8", "24.2.1", "9.7.0", "15.8.0"]  # no common name; also used by preludes
K_UNITS = ["kW", "kWh", "kvar", "kvarh"]
PLAIN_UNITS = ["V", "A", "var", "varh"]
OTHER_UNITS = ["m3", "s", "Hz", "kVA", "W", "Wh", "GJ", "kV", "kA", "kv", "KA", "Kv", "kVAh", "MW", "MWh", "mA", "mV", "kHz", "k", "kWh2", "kW2", "Vh", "Ah", "kVar2", "VA", "kWp", "akW", "varh2", "h", "kvarhh"]
TEXT_ALPHABET = "ABCDEFGHIJKLMNOPQRSTUVWXYZabcdefghijklmnopqrstuvwxyz0123456789 .:_-+,;<=>?@[]^`{|}~#$%&'\""


def _randcase(draw, s):
    return "".join(c.upper() if draw(st.booleans()) else c.lower() for c in s)


@st.composite
def decimal_st(draw, frac=None):
    ip = draw(st.one_of(st.integers(0, 9), st.integers(0, 999), st.integers(0, 10**8)))
    zeros = draw(st.integers(0, 6))
    nfrac = draw(st.integers(0, 3)) if frac is None else frac
    s = "0" * zeros + str(ip)
    if nfrac:
        s += "." + "".join(draw(st.lists(st.sampled_from("0123456789"), min_size=nfrac, max_size=nfrac)))
    return s


@st.composite
def dataset_st(draw, used_cde, used_names):
    """One data set: (address text, C.D.E, [(value, unit)])."""
    kind = draw(st.sampled_from(["known", "known", "known", "unknown", "clock"]))
    avail = [k for k in NAME_OF if k != "1.0.0" and k not in used_cde and NAME_OF[k] not in used_names]
    if kind == "clock" and "1.0.0" not in used_cde:
        cde = "1.0.0"
    elif kind == "known" and avail:
        cde = draw(st.sampled_from(avail))
    else:
        kind = "unknown"
        c, d, e = draw(st.sampled_from(PLAUSIBLE_UNKNOWN).map(lambda t: tuple(int(x) for x in t.split("."))) | st.tuples(st.integers(0, 255), st.integers(0, 255), st.integers(0, 255)))
        while f"{c}.{d}.{e}" in NAME_OF or f"{c}.{d}.{e}" in used_cde:  # repair, do not reject
            e = (e + 1) % 256
            if e == 0:
                d = (d + 1) % 256
        cde = f"{c}.{d}.{e}"
    used_cde.add(cde)
    used_names.add(name_of(cde))
    a = draw(st.sampled_from([None, 0, 1, 1, 1, 6, 7, 8, 2, 4, 5, 9, 255, 128]) | st.integers(0, 255))  # medium: electricity, but also heat, gas, water, abstract ...
    b = draw(st.sampled_from([None, 0, 0, 1, 3, 2, 64, 255]))
    f = draw(st.sampled_from([None, None, None, 255, 1, 0, 126]))
    if draw(st.integers(0, 5)) == 0:  # the six-part dotted form A.B.C.D.E.F
        addr = f"{0 if a is None else a}.{0 if b is None else b}.{cde}.{255 if f is None else f}"
    else:
        addr = ("" if a is None else f"{a}-") + ("" if b is None else f"{b}:") + cde + ("" if f is None else f"*{f}")
    if cde == "1.0.0":
        d = draw(st.datetimes(min_value=datetime.datetime(2000, 1, 1), max_value=datetime.datetime(2099, 12, 31, 23, 59, 59)))
        if draw(st.integers(0, 3)) == 3:
            # wall-clock times that do not exist / exist twice in some time zone (spring forward, fall back) or sit on range edges
            d = draw(st.sampled_from([datetime.datetime(2021, 3, 28, 2, 30), datetime.datetime(2021, 10, 31, 2, 30), datetime.datetime(2021, 3, 14, 2, 30), datetime.datetime(2024, 10, 6, 2, 15), datetime.datetime(2038, 1, 19, 3, 14, 8), datetime.datetime(2069, 1, 1), datetime.datetime(2099, 12, 31, 23, 59, 59), datetime.datetime(2000, 1, 1)]))
        d = d.replace(microsecond=0)
        v = d.strftime("%y%m%d%H%M%S") + draw(st.sampled_from(["W", "S", ""]))
        return (addr, cde, [(v, None)], ("clock", d))
    nvals = draw(st.sampled_from([1, 1, 1, 1, 1, 2, 3, 6]))
    vals = []
    for _ in range(nvals):
        vk = draw(st.sampled_from(["k", "k", "plain", "text", "other-unit", "empty", "max-lengths"]))
        if vk == "k":
            vals.append((draw(decimal_st(frac=draw(st.sampled_from([3, 3, 0, 1, 2])))), _randcase(draw, draw(st.sampled_from(K_UNITS)))))
        elif vk == "plain":
            vals.append((draw(decimal_st()), _randcase(draw, draw(st.sampled_from(PLAIN_UNITS)))))
        elif vk == "other-unit":
            vals.append((draw(decimal_st()), draw(st.sampled_from(OTHER_UNITS))))
        elif vk == "max-lengths":
            # IEC 62056-21: value up to 32 characters, unit up to 16 characters
            v = "".join(draw(st.lists(st.sampled_from("0123456789"), min_size=1, max_size=1))) * draw(st.sampled_from([31, 32]))
            u = draw(st.sampled_from(["m3", "Hz", "kVA"])) + "x" * draw(st.sampled_from([12, 13, 14]))
            vals.append((v, u[: draw(st.sampled_from([15, 16]))]))
        elif vk == "empty":
            vals.append(("", None))
        else:
            vals.append(("".join(draw(st.lists(st.sampled_from(TEXT_ALPHABET), min_size=0, max_size=32))), None))
    return (addr, cde, vals, None)


@st.composite
def block_st(draw):
    used_cde, used_names = set(), set()
    n = draw(st.integers(1, 12))
    sets = [draw(dataset_st(used_cde, used_names)) for _ in range(n)]
    eol = draw(st.sampled_from(["\r\n", "\r\n", "\n"]))
    # lines: 1..3 data sets per line, blank lines in between
    lines = []
    i = 0
    while i < n:
        k = draw(st.sampled_from([1, 1, 1, 2, 3]))
        lines.append(sets[i : i + k])
        i += k
    text = eol if draw(st.booleans()) else ""
    for ln in lines:
        text += "".join(addr + "".join("(" + v + ("" if u is None else "*" + u) + ")" for v, u in vals) for addr, _c, vals, _x in ln) + eol
        if draw(st.integers(0, 5)) == 0:
            text += eol
    ident = draw(G.ident_st())
    return (sets, text, ident, draw(st.sampled_from(["upper", "lower", "none"])), draw(st.sampled_from(PRELUDES)))


def expected_value(cde, v, u, extra):
    """Returns ('eq', x) | ('range', lo, hi) for the decoded value."""
    unit = u.lower() if u else None
    if unit in ("kw", "kwh", "kvar", "kvarh"):
        exact = Fraction(v) * 1000
        assert exact.denominator == 1
        return ("range", int(exact) - 1, int(exact))
    if unit in ("v", "a", "var", "varh"):
        fr = Fraction(v)
        return ("eq", fr.numerator / fr.denominator)
    if extra is not None and extra[0] == "clock":
        return ("eq", extra[1])
    return ("eq", v)


TZS = ["UTC", "Europe/Oslo", "America/New_York", "Australia/Lord_Howe", "Pacific/Apia", "Asia/Kathmandu"]


def oracle(case) -> Info:
    import os
    import time

    tz = TZS[len(case[1]) % len(TZS)]  # the process's local time zone is part of the environment: results must not depend on it
    old = os.environ.get("TZ")
    os.environ["TZ"] = tz
    time.tzset()
    try:
        return _oracle(case, tz)
    finally:
        if old is None:
            os.environ.pop("TZ", None)
        else:
            os.environ["TZ"] = old
        time.tzset()


def _oracle(case, tz) -> Info:
    sets, text, ident, checksum = case[:4]
    ident = tuple(ident)
    run_prelude(case[4] if len(case) > 4 else "none")
    block = text.encode("ascii")
    # ---- parsing
    parsed = guarded(dlde.parse_p1_readout_content, block, what="parse_p1_readout_content")
    want = [(addr, [(v, u) for v, u in vals]) for addr, _c, vals, _x in sets]
    got = [(ds.address, [(x.value, x.unit) for x in ds.values]) for ds in parsed]
    if got != want:
        i = next((k for k in range(min(len(got), len(want))) if got[k] != want[k]), min(len(got), len(want)))
        fail(f"parse: data set #{i}: sent {want[i] if i < len(want) else None!r}, parsed {got[i] if i < len(got) else None!r} (sent {len(want)}, parsed {len(got)}) block {text!r:.300}", sig="parse")
    # ---- decoding
    exp = {}
    for addr, cde, vals, extra in sets:
        if len(vals) == 1:
            exp[name_of(cde)] = expected_value(cde, vals[0][0], vals[0][1], extra)
    n_below = 0

    def compare(dec, what, extra_keys=()):
        nonlocal n_below
        if not isinstance(dec, dict):
            fail(f"{what} returned {type(dec).__name__}", sig="decode-type")
        keys = set(exp) | set(extra_keys)
        if set(dec) != keys:
            fail(f"{what}: keys {sorted(set(dec) ^ keys)} differ (missing or unexpected); block {text!r:.300}", sig="decode-keys")
        for k, e in exp.items():
            g = dec[k]
            if e[0] == "eq":
                if g != e[1] or type(g) is not type(e[1]):
                    fail(f"{what}: {k} = {g!r}, transmitted {e[1]!r}; block {text!r:.300}", sig="decode-value")
            else:
                if not isinstance(g, int) or isinstance(g, bool) or not (e[1] <= g <= e[2]):
                    fail(f"{what}: {k} = {g!r}, exact value {e[2]} (allowed {e[1]}..{e[2]}); block {text!r:.300}", sig="decode-kunit")
                if g == e[1]:
                    n_below += 1

    from vlib.gen_cosem import scribble

    scribble(guarded(dlde.decode_p1_readout_content, block, what="decode_p1_readout_content"))  # a first result, modified by the caller
    d_content = guarded(dlde.decode_p1_readout_content, block, what="decode_p1_readout_content")
    compare(d_content, "decode_p1_readout_content")
    readout_bytes = G.add_end(G.render_ident(ident) + block, checksum)
    ro = guarded(dlde.DataReadout, readout_bytes, what="DataReadout")
    d_ro = guarded(dlde.decode_p1_readout, ro, what="decode_p1_readout")
    compare(d_ro, "decode_p1_readout", ("meter_manufacturer_id", "meter_type_id"))
    if d_ro["meter_manufacturer_id"] != ident[0] or d_ro["meter_type_id"] != ident[3]:
        fail(f"decode_p1_readout: manufacturer/type id {d_ro['meter_manufacturer_id']!r}/{d_ro['meter_type_id']!r}, identification line {G.render_ident(ident)!r}", sig="ident-fields")
    rest = {k: v for k, v in d_ro.items() if k not in ("meter_manufacturer_id", "meter_type_id")}
    if rest != d_content:
        fail("decode_p1_readout and decode_p1_readout_content disagree", sig="entry-points")
    ad = autodecoder.AutoDecoder()
    d_auto = guarded(ad.decode_message_payload, block, what="AutoDecoder.decode_message_payload")
    if d_auto != d_content:
        fail(f"AutoDecoder.decode_message_payload gives {d_auto!r:.200}, decode_p1_readout_content {d_content!r:.200}", sig="autodecoder")
    d_auto2 = guarded(autodecoder.AutoDecoder().decode_message, ro, what="AutoDecoder.decode_message")
    if d_auto2 != d_ro:
        fail(f"AutoDecoder.decode_message(DataReadout) gives {d_auto2!r:.200}, decode_p1_readout {d_ro!r:.200}", sig="autodecoder")
    three_dec = any(len(vals) == 1 and vals[0][1] and vals[0][1].lower() in ("kw", "kwh", "kvar", "kvarh") and "." in vals[0][0] and len(vals[0][0].split(".")[1]) == 3 for _a, _c, vals, _x in sets)
    multi = any(len(vals) > 1 for _a, _c, vals, _x in sets) or text.count("(") > 0 and any(line.count(")") > 1 and sum(1 for a, _c, _v, _x in sets if a and a in line) > 1 for line in text.splitlines())
    classes = []
    if three_dec:
        classes.append("k-unit-3-decimals")
    if multi:
        classes.append("multi-value-or-multi-set-line")
    if n_below:
        classes.append("hit-exact-minus-1")
    if any(x is not None for _a, _c, _v, x in sets):
        classes.append("clock")
    classes.append("eol:" + ("lf" if "\r" not in text else "crlf"))
    classes.append(f"tz:{tz}")
    return Info(nontrivial=three_dec and multi, classes=tuple(classes))


def long_oracle(case) -> Info:
    """Blocks with very many data sets, on one line or on many lines (legal syntax, far larger than any capture)."""
    n, per_line, seed, eol = case
    import random

    rnd = random.Random(seed)
    sets = []
    for i in range(n):
        c_, d_, e_ = i % 256, (i // 256) % 256, rnd.randrange(256)
        if (c_, d_, e_) == (1, 0, 0):
            e_ = 1  # 1.0.0 is the clock: only generated with a clock value (blocks clause)
        addr = f"{rnd.choice([0, 1])}-{rnd.choice([0, 1])}:{c_}.{d_}.{e_}"
        k = rnd.choice([1, 1, 1, 2])
        vals = [(str(rnd.randrange(10**rnd.randrange(1, 6))), rnd.choice([None, "kWh", "V", "s"])) for _ in range(k)]
        sets.append((addr, vals))
    lines = []
    for i in range(0, n, per_line):
        lines.append("".join(a + "".join("(" + v + ("" if u is None else "*" + u) + ")" for v, u in vals) for a, vals in sets[i : i + per_line]))
    text = eol.join(lines) + eol
    block = text.encode("ascii")
    parsed = guarded(dlde.parse_p1_readout_content, block, what=f"parse_p1_readout_content ({n} data sets, {per_line} per line, {len(block)} bytes)")
    got = [(ds.address, [(x.value, x.unit) for x in ds.values]) for ds in parsed]
    if got != sets:
        i = next((k for k in range(min(len(got), len(sets))) if got[k] != sets[k]), min(len(got), len(sets)))
        fail(f"parse of a block with {n} data sets ({per_line} per line): {len(got)} returned; first difference at #{i}", sig="long-parse")
    dec = guarded(dlde.decode_p1_readout_content, block, what=f"decode_p1_readout_content ({n} data sets, {per_line} per line)")
    if not isinstance(dec, dict):
        fail("decode of a long block did not return a dict", sig="long-decode")
    if guarded(autodecoder.AutoDecoder().decode_message_payload, block, what="AutoDecoder.decode_message_payload") != dec:
        fail(f"AutoDecoder and decode_p1_readout_content disagree on a block with {n} data sets ({len(block)} bytes)", sig="long-autodecoder")
    return Info(nontrivial=n >= 500, classes=(f"per-line:{'all' if per_line >= n else per_line}", "block>8KiB" if len(block) > 8192 else "block<=8KiB"))


long_st = st.tuples(st.sampled_from([100, 500, 989, 990, 1000, 1100, 2000, 3000]) | st.integers(1, 3000), st.sampled_from([1, 2, 10, 100, 1000, 10**6]), st.integers(0, 2**31), st.sampled_from(["\r\n", "\n"]))


def build() -> Check:
    return Check(
        pid="C11",
        level="exploration",
        rule=(
            "Data blocks from the IEC 62056-21 grammar: 1..12 data sets with addresses [A-][B:]C.D.E[*F] (known and unknown C.D.E, no two "
            "mapping to the same field), 1..6 values per data set: decimals with 0..3 fractional digits, 0..6 leading zeros, integer part "
            "up to 10^8, units kW/kWh/kvar/kvarh/V/A/var/varh in random letter case, other units, text and empty values, a clock "
            "YYMMDDhhmmss[W|S]; 1..3 data sets per line, blank lines, LF or CRLF; identification lines from the grammar. Oracle: parse "
            "returns exactly the transmitted (address, values, units); k-unit results are ints within [exact-1, exact] (Fraction "
            "arithmetic); V/A/var/varh equal the correctly rounded decimal; clock is the naive datetime; others verbatim; readout decode adds "
            "exactly manufacturer id / type id; the three entry points agree. Non-trivial = >=1 three-decimal k-unit value and >=1 "
            "multi-value data set or multi-data-set line. long-blocks: 1..3000 data sets (sizes around 1000 forced) with 1, 2, 10, 100, 1000 or all "
            "data sets per line - parse must return every data set in order, decode must succeed and agree with AutoDecoder. The class hit-exact-minus-1 counts blocks where truncation loses a unit."
        ),
        assumptions=[
            "Field names come from vlib/names.py (typed into the harness), not han.obis_map.",
            "Identification text has no trailing blank and does not begin with a backslash; text values avoid ( ) * / !.",
            "Address 1.0.0 is only generated as the clock (no unit).",
            "The process time zone (TZ + tzset) is switched per case among UTC, Europe/Oslo, America/New_York, Australia/Lord_Howe, Pacific/Apia, Asia/Kathmandu; clock values include non-existent / ambiguous local times.",
        ],
        clauses=[
            HypClause("blocks", block_st, oracle, quick=12000, thorough=300000),
            HypClause("long-blocks", long_st, long_oracle, quick=200, thorough=4000, doc="1..3000 data sets, all on one line or spread over lines; blocks up to ~60 KB"),
        ],
    )
