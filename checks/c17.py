"""C17 - ConnectionManager: one connection at a time, and close() really stops it (fault / schedule enumeration)."""
from __future__ import annotations

import itertools
import logging
import warnings

from hypothesis import strategies as st

from vlib import vtloop
from vlib.runner import Check, EnumClause, HypClause, Info, fail

logging.disable(logging.CRITICAL)
warnings.simplefilter("ignore", DeprecationWarning)

TASK_BOUND = 32  # absolute ceiling for any single run; independence from the number of cycles is checked separately (long clause)
LATENCIES = [0.0, 0.5, 3.0]
LIFETIMES = [None, 0.0, 0.3, 2.0, 7.0, 30.0]
SLOW_CANCEL = ["ok~1.5", "fail~0.7", "ok~40"]  # an attempt that, when cancelled, needs that long to unwind (close() must not wait for it)
EOF_MODES = ["eof:0.05", "eof:1.5", "eof:-3"]  # the peer half-closes: eof_received() first, connection_lost() 0.05 s / 1.5 s / 3 loop iterations later
LIFETIMES_FAULTY = [-0.3, -2.0]  # negative: the connection is lost after |t| s and closing the dead transport raises OSError


def trace_text(world, limit=40):
    return "; ".join(f"{t:g}s#{it}:{k}{'' if a is None else a}" for t, it, k, a in world.events[:limit])


def judge(out, script, what):
    """Trace invariants. Raises Violation; returns a dict of facts for classification."""
    w = out["world"]
    ev = w.events
    ctx = f"{what}; script {script}; trace: {trace_text(w)}"
    if out.get("loop_exc") is not None:
        fail(f"connect_loop() raised {out['loop_exc']!r}; {ctx}", sig="loop-raised")
    if out.get("livelock"):
        tail = "; ".join(f"{t:g}s#{it}:{k}{'' if a is None else a}" for t, it, k, a in w.events[-6:])
        fail(f"the event loop spun for {vtloop.SPIN_LIMIT} iterations at virtual time {out['end_time']:g}s without the clock advancing (busy loop in the manager) after {len(w.attempts)} attempts; last events: {tail}; {what}", sig="busy-loop")
    # I1 / I2 over the trace
    live = set()
    open_attempt = None
    awaiting_end = None  # transport whose connection must end before the next attempt
    closed_seen = False
    for t, it, kind, arg in ev:
        if kind == "close":
            closed_seen = True
        elif kind == "attempt_start":
            if closed_seen:
                fail(f"connection attempt #{arg} started at {t:g}s after close() at {out['closed_at']:g}s; {ctx}", sig="attempt-after-close")
            if open_attempt is not None:
                fail(f"attempt #{arg} started at {t:g}s while attempt #{open_attempt} was still pending; {ctx}", sig="overlapping-attempts")
            if awaiting_end is not None:
                fail(f"attempt #{arg} started at {t:g}s before connection {awaiting_end} had ended; {ctx}", sig="attempt-before-connection-ended")
            open_attempt = arg
        elif kind in ("attempt_fail", "attempt_cancelled"):
            open_attempt = None
        elif kind == "attempt_ok":
            open_attempt = None
            idx = w.attempts[arg]["transport"]
            if live:
                fail(f"second live connection {idx} at {t:g}s while {sorted(live)} still live; {ctx}", sig="two-live-connections")
            live.add(idx)
            awaiting_end = idx
        elif kind in ("transport_close", "transport_lost"):
            live.discard(arg)
            if awaiting_end == arg:
                awaiting_end = None
    if w.max_tasks > TASK_BOUND:
        fail(f"{w.max_tasks} asyncio tasks alive at once (bound {TASK_BOUND}) after {len(w.attempts)} attempts; {ctx}", sig="task-leak")
    facts = {"attempts": len(w.attempts), "transports": len(w.transports), "max_tasks": w.max_tasks}
    if out["closed_at"] is None:
        # keeps reconnecting: ends connected, one attempt per failure/loss plus one
        fails = sum(1 for a in w.attempts if a["outcome"] == "fail")
        losses = sum(1 for _t, _i, k, _a in ev if k == "transport_lost")
        if len(live) != 1:
            fail(f"without close() the run should end connected; live connections at {out['end_time']:g}s: {sorted(live)}; {ctx}", sig="not-reconnected")
        if len(w.attempts) != fails + losses + 1:
            fail(f"{len(w.attempts)} attempts for {fails} failures and {losses} losses (expected {fails + losses + 1}); {ctx}", sig="attempt-count")
        facts["losses"] = losses
        facts["fails"] = fails
    else:
        tc = out["closed_at"]
        if not out["main_done"] or out["loop_done_at"] is None:
            fail(f"connect_loop() had not returned {out['end_time'] - tc:g}s after close() at {tc:g}s; {ctx}", sig="loop-not-done")
        if out["loop_done_at"] - tc > 1e-6:
            fail(f"connect_loop() returned at {out['loop_done_at']:g}s, {out['loop_done_at'] - tc:g}s after close() at {tc:g}s (waited out a back-off or a pending attempt); {ctx}", sig="loop-done-late")
        for tr in w.transports:
            if not tr.closed:
                fail(f"transport {tr.idx} obtained from the factory was never closed ({out['end_time'] - tc:g}s after close()); {ctx}", sig="transport-not-closed")
            if tr.closed_at > out["loop_done_at"] + 1e-6:
                fail(f"transport {tr.idx} was still open when connect_loop() returned at {out['loop_done_at']:g}s after close(); it only ended at {tr.closed_at:g}s (when the peer dropped it); {ctx}", sig="transport-not-closed")
        # what was pending when close() landed
        pending_attempt = any(a["start"] <= tc and (a["end"] is None or a["end"] >= tc) and a["outcome"] in (None, "cancelled", "ok", "fail") and (a["end"] is None or a["end"] > tc or a["outcome"] == "cancelled") for a in w.attempts)
        facts["close_during_attempt"] = pending_attempt
        facts["close_while_connected"] = any(k == "transport_close" and abs(t - tc) < 1e-9 for t, _i, k, _a in ev)
    return facts


def uninjected(script, horizon=None):
    need = sum(s[1] for s in script) + sum(abs(s[2] or 0) for s in script if len(s) > 2) + 80 + 6 * len(script)
    return vtloop.run_scenario(script, horizon=horizon or need)


def scenario_oracle(case) -> Info:
    """case = (script, close_times): the uninjected run, close() before EVERY loop iteration of it, and close() at drawn times."""
    script = [tuple(s) for s in case[0]]
    close_times = list(case[1])
    base = uninjected(script)
    facts = judge(base, script, "no close()")
    # the same run next to a second manager that is closed half-way: the first manager must behave exactly as alone
    evt = [t for t, _i, _k, _a in base["world"].events]
    for tb in sorted({0.0, round((evt[-1] if evt else 1.0) / 2, 6), round((evt[-1] if evt else 1.0) + 1.0, 6)}):
        need = sum(s_[1] for s_ in script) + sum(abs(s_[2] or 0) for s_ in script if len(s_) > 2) + 80 + 6 * len(script)
        withby = vtloop.run_scenario(script, horizon=need, bystander_close_at=tb)
        judge(withby, script, f"no close(); an unrelated second manager on the same loop is closed at {tb:g}s")
        sig_a = [(round(t, 6), k, a) for t, _i, k, a in base["world"].events]
        sig_b = [(round(t, 6), k, a) for t, _i, k, a in withby["world"].events]
        if sig_a != sig_b:
            fail(f"the manager's trace changes when an unrelated second manager on the same loop is closed at {tb:g}s: alone {sig_a[:12]} / with bystander {sig_b[:12]}; script {script}", sig="managers-not-independent")
    n_iter = base["iterations"]
    horizon = base["end_time"]
    classes = set()
    nontrivial = facts.get("losses", 0) >= 2
    runs = 1
    # iterations of interest: every iteration up to the point where the uninjected run has settled
    settle_it = max((it for _t, it, _k, _a in base["world"].events), default=1) + 3
    for k in range(1, min(n_iter, settle_it) + 1):
        out = vtloop.run_scenario(script, close_at_iteration=k, horizon=horizon + 400)
        f = judge(out, script, f"close() before loop iteration {k}")
        runs += 1
        if f.get("close_during_attempt"):
            classes.add("close-during-attempt")
            nontrivial = True
        if f.get("close_while_connected"):
            classes.add("close-while-connected")
    # times strictly inside sleeps / latencies
    times = set()
    evs = base["world"].events
    for t0, _i0, _k0, _a0 in evs:
        times.add(round(t0, 6))  # exactly when something else happens (timer ties: close() in the same loop iteration)
    for (t0, _i0, _k0, _a0), (t1, _i1, _k1, _a1) in zip(evs, evs[1:]):
        if t1 - t0 > 1e-6:
            times.add(round((t0 + t1) / 2, 6))
            times.add(round(t0 + (t1 - t0) * 0.999, 6))
    for ct in close_times:
        times.add(round((ct % 1000) / 1000 * max(1.0, evs[-1][0] if evs else 1.0), 6))
    for tc in sorted(times):
        out = vtloop.run_scenario(script, close_at_time=tc, horizon=horizon + 400)
        f = judge(out, script, f"close() at virtual time {tc:g}s")
        runs += 1
        classes.add("close-inside-sleep-or-latency")
        nontrivial = True
    classes.add(f"fails:{min(3, sum(1 for s in script if str(s[0]).startswith('fail')))}")
    classes.add(f"losses:{min(3, facts.get('losses', 0))}")
    return Info(nontrivial=nontrivial, classes=tuple(sorted(classes)), sample={"script": [list(s) for s in script], "runs": runs, "iterations": n_iter}, counts={"executions(runs of connect_loop)": runs})


step_st = st.one_of(
    st.tuples(st.just("fail"), st.sampled_from(LATENCIES), st.none()),
    st.tuples(st.just("ok"), st.sampled_from(LATENCIES), st.sampled_from(LIFETIMES[1:])),
    st.tuples(st.just("ok"), st.sampled_from(LATENCIES), st.sampled_from(LIFETIMES[1:] + LIFETIMES_FAULTY)),
    st.tuples(st.just("ok"), st.sampled_from(LATENCIES), st.sampled_from(LIFETIMES[1:]), st.sampled_from(EOF_MODES)),
    st.tuples(st.sampled_from(SLOW_CANCEL), st.sampled_from(LATENCIES[1:]), st.sampled_from(LIFETIMES[1:])),
)
scenario_st = st.tuples(st.lists(step_st, min_size=0, max_size=5), st.lists(st.integers(0, 999), max_size=3))


# ---- full grid (thorough) / reduced grid (quick) -----------------------------------------------------------------------------

_STEPS = [("fail", lat, None) for lat in LATENCIES] + [("ok", lat, life) for lat in LATENCIES for life in LIFETIMES[1:]]
_STEPS += [("ok", 0.0, 2.0, "eof:0.05"), ("ok", 0.5, 0.3, "eof:-3")]
_STEPS_EOF = [("fail", 0.0, None), ("ok", 0.0, 0.3, "eof:0.05"), ("ok", 0.5, 2.0, "eof:-3"), ("ok", 0.0, 2.0, "eof:1.5"), ("ok", 0.0, 2.0)]
_STEPS_QUICK = [("fail", 0.0, None), ("fail", 3.0, None), ("ok", 0.0, 0.0), ("ok", 0.5, 2.0), ("ok", 3.0, 7.0), ("ok", 0.0, -0.3)]


def _grid(tier):
    steps = _STEPS if tier == "thorough" else _STEPS_QUICK
    maxlen = 4 if tier == "quick" else 3
    out = []
    for n in range(0, maxlen + 1):
        out.extend(itertools.product(steps, repeat=n))
    return out


_GRID_CACHE = {}


_EOF_GRID = [list(c) for n in range(1, 4) for c in itertools.product(_STEPS_EOF, repeat=n) if any(len(x) > 3 for x in c)]
_STEPS_SLOW = [("fail", 0.0, None), ("ok~1.5", 3.0, 2.0), ("fail~0.7", 0.5, None), ("ok", 0.0, 0.3)]
_EOF_GRID += [list(c) for n in range(1, 4) for c in itertools.product(_STEPS_SLOW, repeat=n) if any("~" in x[0] for x in c)]


def eof_case(i, tier):
    return (_EOF_GRID[i], [])


def grid_case(i, tier):
    if tier not in _GRID_CACHE:
        _GRID_CACHE[tier] = _grid(tier)
    return (list(_GRID_CACHE[tier][i]), [])


def grid_size(tier):
    if tier not in _GRID_CACHE:
        _GRID_CACHE[tier] = _grid(tier)
    return len(_GRID_CACHE[tier])


# ---- long runs: task bound over many reconnect cycles -----------------------------------------------------------------------------


def _long_script(cycles, mode):
    if mode == "fail-streak":
        return [("fail", 0.0, None)] * cycles
    if mode == "loss":
        return [("ok", 0.0, 0.3)] * cycles
    if mode == "fail-loss":
        return [("fail", 0.0, None), ("ok", 0.0, 0.3)] * (cycles // 2)
    return [("ok", 0.5, 7.0)] * cycles


def long_oracle(case) -> Info:
    """case = (mode, [cycle counts ascending]): the same kind of run at growing lengths; the task high-water mark must not grow."""
    if isinstance(case[0], int):  # older replay files: (cycles, mode)
        case = (case[1], [case[0]])
    mode, sizes = case[0], list(case[1])
    marks = []
    for cycles in sizes:
        script = _long_script(cycles, mode)
        out = vtloop.run_scenario(script, horizon=cycles * (61.0 if mode == "fail-streak" else 12.0) + 100)
        if out.get("aborted_task_explosion"):
            w = out["world"]
            fail(f"{w.max_tasks} asyncio tasks alive after {len(w.attempts)} reconnect cycles ({mode}): pending tasks grow with every cycle", sig="task-leak")
        facts = judge(out, script[:6] + ["..."], f"{cycles} reconnect cycles ({mode})")
        marks.append(facts["max_tasks"])
    if marks[-1] > marks[0] + 2:
        fail(f"task high-water mark grows with the number of reconnect cycles ({mode}): {dict(zip(sizes, marks))}", sig="task-leak")
    return Info(nontrivial=True, classes=(f"mode:{mode}",), sample={"mode": mode, "max_tasks_by_cycles": dict(zip(map(str, sizes), marks))})


def long_cases(tier):
    sizes = [50, 500] if tier == "quick" else [50, 500, 3000]
    return [(m, sizes) for m in ("loss", "fail-loss", "slow")] + [("fail-streak", [100, 1200] if tier == "quick" else [100, 1200, 5000])]


def build() -> Check:
    return Check(
        pid="C17",
        level="fault_enumeration",
        rule=(
            "Scenario = per-attempt script for up to 5 attempts, each fail|ok x latency {0, 0.5, 3 s} x (for ok) connection lifetime {lost after "
            "0, 0.3, 2, 7, 30 s; or lost and close() on the dead transport raises OSError}; afterwards attempts succeed and stay up. For every scenario the harness runs, on a deterministic virtual-time "
            "event loop: the uninjected run; one run with close() injected before EVERY event-loop iteration of the uninjected run (every "
            "await point: back-off sleep, pending attempt, connected, between loss and reconnect); and runs with close() at virtual times "
            "strictly inside every sleep/latency interval (midpoint and 99.9 %), at exactly every event time of the uninjected run (timer ties) plus drawn times; each injected run is drained for 200 s "
            "after close(). scenarios: Hypothesis-drawn scripts (shrinkable); grid: ALL scripts over the step alphabet (length <=4 over 5 "
            "steps quick, length <=3 over 18 steps thorough); long: 50/500(/3000) reconnect cycles in three modes, and a streak of 1200 (thorough 5000) consecutive failed attempts, for the task bound and 'keeps reconnecting'. Invariants on the "
            "recorded trace: <=1 live connection; attempt n+1 only after attempt n ended and its connection ended; without close() the run "
            "ends connected with attempts = failures + losses + 1; never more than 32 tasks alive in any run and a task high-water mark that does not grow with the number of cycles (long clause: same mode at 50/500/3000 cycles, at most +2); after close(): connect_loop() "
            "returns at the same virtual time, no attempt starts afterwards, every transport obtained is closed by then (not merely dropped by the peer later). Non-trivial = close lands "
            "during a pending attempt or inside a sleep/latency, or the scenario has >=2 losses. evaluations counts scenarios; "
            "each scenario comprises tens of injected runs (sample 'runs')."
            " eof-grid / drawn 4th script element 'eof:<gap>': the connection ends by eof_received() first and connection_lost(None) 0.05 s / 1.5 s / 3 loop iterations later; the connection counts as ended only at connection_lost()."
            " Script outcomes 'ok~T' / 'fail~T': the attempt, when cancelled, needs T = 0.7 / 1.5 / 40 s to unwind; close() must not wait for that."
        ),
        assumptions=[
            "asyncio single-threaded semantics on a SelectorEventLoop subclass whose selector advances a virtual clock; real sockets/serial transports and other loop implementations are not covered.",
            "Every scenario is also run next to a second, unrelated ConnectionManager on the same loop that is closed at three different times: the trace of the manager under test must be identical.",
            "The fake transport reports connection_lost(None) one loop iteration after close(), as asyncio transports do.",
            "The manager's wall clock (datetime.utcnow in the loss circuit breaker) is replaced by the virtual clock from outside.",
        ],
        clauses=[
            HypClause("scenarios", scenario_st, scenario_oracle, quick=1600, thorough=20000),
            EnumClause("eof-grid", size=lambda tier: len(_EOF_GRID), case_at=eof_case, oracle=scenario_oracle, doc="all scripts of length <=3 over 5 steps with at least one connection that ends by a half-close (eof_received() first, connection_lost() 0.05 s / 1.5 s / 3 loop iterations later) x every injection point; likewise all scripts of length <=3 over 4 steps with at least one attempt that needs 0.7 / 1.5 s to unwind when cancelled"),
            EnumClause("grid", size=grid_size, case_at=grid_case, oracle=scenario_oracle, doc="all scripts of length <=3 x every injection point"),
            EnumClause("long", size=lambda tier: len(long_cases(tier)), case_at=lambda i, tier: long_cases(tier)[i], oracle=long_oracle, doc="task bound over many reconnect cycles", exhaustive=False),
        ],
    )
