"""C05 - P1: every readout on a clean stream is delivered once, however it is chunked."""
from __future__ import annotations

import logging
import random

from hypothesis import strategies as st

from han import dlde
from vlib import gen_hdlc as GH
from vlib import gen_p1 as G
from vlib.runner import Check, HypClause, Info, fail, guarded

logging.disable(logging.CRITICAL)


def build_stream(case):
    idents, n, seed, (lo, hi), checksums, tail_cut = case[0], case[1], case[2], tuple(case[3]), case[4], case[5]
    readouts = []
    for i in range(n):
        rnd = random.Random(seed * 1000003 + i)
        spec = (tuple(rnd.choice(idents)), rnd.randint(lo, hi), rnd.getrandbits(32), rnd.choice(checksums), rnd.random() < 0.7)
        ro = G.build_readout(spec)
        if lo == 0 and hi == 1 and seed % 3 == 0 and i % 5 == 2 and i < 150:
            # a readout with one very long (but legal) data line, e.g. a hex-coded text message
            ident_line = ro[: ro.index(b"\n") + 1]
            long_line = b"0-0:96.13.0(" + bytes(rnd.choice(b"0123456789ABCDEF") for _ in range(rnd.choice([1000, 1030, 1100, 2048, 4000]))) + b")\r\n"
            ro = G.add_end(ident_line + long_line, spec[3])
        readouts.append(ro)
    tail = b""
    if tail_cut:
        first = G.build_readout((tuple(idents[0]), max(lo, 1), seed ^ 0x5A5A, checksums[0], True))
        tail = first[1 + (tail_cut - 1) % (len(first) - 1) :]  # a suffix that starts after the '/'
    return tail, readouts


def chunks_of(stream: bytes, cuts, readouts):
    kind = cuts[0]
    if len(stream) > 60000 and kind == "fixed" and cuts[1] < 48:
        # the reader re-scans an unfinished line on every call (quadratic in the line length for tiny chunks): keep the
        # harness affordable on big streams - tiny chunks are exercised on the smaller ones
        cuts = ("fixed", 48 + cuts[1], cuts[2])
    if kind == "readout-len":  # fixed-size chunks of (length of the first readout + k)
        size = max(1, len(readouts[0]) + cuts[1])
        return GH.split(stream, ("fixed", size, cuts[2]))
    return GH.split(stream, cuts)


def oracle(case) -> Info:
    cuts = tuple(case[6])
    tail, readouts = build_stream(case)
    assert all(len(r) < 8000 for r in readouts)
    stream = tail + b"".join(readouts)
    reader = dlde.ModeDReader()
    got = []
    chunks = chunks_of(stream, cuts, readouts)
    # the harness owns the clock: virtual seconds pass between the calls (a slow serial line, a stalled sender)
    from vlib import fakeclock

    gap_pattern = ("none", "mixed", "long", "short")[case[2] % 4] if len(chunks) <= 4000 else "none"
    gaps = fakeclock.gaps_for(len(chunks), gap_pattern, case[2])
    with fakeclock.FakeClock() as clk:
        for ch, gap in zip(chunks, gaps):
            clk.advance(gap)
            got.extend(guarded(reader.read, ch, what="ModeDReader.read"))
    got_b = [guarded(lambda o=o: o.as_bytes) for o in got]
    if got_b != readouts:
        n = min(len(got_b), len(readouts))
        i = next((k for k in range(n) if got_b[k] != readouts[k]), n)
        sizes = sorted({len(c) for c in chunks})
        fail(
            f"sent {len(readouts)} readouts ({len(stream)} bytes, tail {len(tail)}), got {len(got_b)}; first difference at #{i}: "
            f"sent {readouts[i][:40] if i < len(readouts) else None!r}.. got {got_b[i][:40] if i < len(got_b) else None!r}..; chunking {cuts[:3]} "
            f"({len(chunks)} chunks, sizes {sizes[:3]}..{sizes[-1:]})",
            sig="lost" if len(got_b) < len(readouts) else ("dup" if len(got_b) > len(readouts) else "altered"),
        )
    for o, r in zip(got, readouts):
        if guarded(lambda o=o: o.is_valid) is not True:
            fail(f"well-formed readout reported invalid: {r[:120]!r}", sig="invalid")
    # classification
    bounds = []
    pos = len(tail)
    ident_spans = []
    for r in readouts:
        bounds.append((pos, pos + len(r)))
        ident_spans.append((pos, pos + r.index(b"\n") + 1))
        pos += len(r)
    cps = []
    p = 0
    for ch in chunks[:-1]:
        p += len(ch)
        cps.append(p)
    import bisect

    starts = [b[0] for b in bounds]
    inside = in_ident = 0
    for c in cps:
        k = bisect.bisect_right(starts, c) - 1
        if k >= 0 and bounds[k][0] < c < bounds[k][1]:
            inside += 1
            if ident_spans[k][0] < c < ident_spans[k][1]:
                in_ident += 1
    big = len(readouts) >= 30 or len(stream) > 8192
    nt = big and inside >= 1 and in_ident * 10 < max(1, len(cps))
    starts_between = sum(1 for c in cps if c in set(starts))
    classes = [f"cuts:{cuts[0]}", "big" if big else "small", "tail" if tail else "notail", f"gaps:{gap_pattern}"]
    if big and cps and starts_between == 0:
        classes.append("no-call-starts-between-readouts")
    if len(stream) > 100000:
        classes.append("stream>100KB")
    return Info(nontrivial=nt, classes=tuple(classes), sample={"readouts": len(readouts), "bytes": len(stream), "tail": len(tail), "cuts": list(cuts)[:3], "first": readouts[0][:60].decode("ascii", "replace")})


@st.composite
def case_st(draw):
    idents = draw(st.lists(G.ident_st(), min_size=1, max_size=3))
    size_class = draw(st.sampled_from(["tiny", "small", "small", "medium", "medium", "large", "minimal-many", "minimal-many"]))
    lo, hi = {"tiny": (0, 2), "small": (3, 12), "medium": (8, 40), "large": (60, 200), "minimal-many": (0, 1)}[size_class]
    nmax = {"tiny": 200, "small": 200, "medium": 120, "large": 50, "minimal-many": 3000}[size_class]
    n = draw(st.sampled_from([1, 2, 3, 30, 40]) | st.integers(1, nmax))
    if size_class == "minimal-many":
        n = draw(st.sampled_from([900, 1000, 1100, 2000, 3000]) | st.integers(1, 3000))  # also > 1000 readouts in ONE read() call
    seed = draw(st.integers(0, 2**31))
    checksums = draw(st.sampled_from([["upper"], ["upper", "none"], ["lower"], ["none"], ["upper", "lower", "none"]]))
    tail_cut = draw(st.sampled_from([0, 0, 1]) | st.integers(0, 5000))
    kind = draw(st.sampled_from(["none", "bytewise", "multi", "fixed", "fixed", "fixed", "readout-len", "readout-len", "tail-bytewise"]))
    if kind in ("bytewise", "tail-bytewise") and (n * (hi + 3) * 30 > 40000):
        kind = "fixed"
    if kind == "multi":
        cuts = ("multi", tuple(draw(st.lists(st.integers(0, 10**7), min_size=1, max_size=12))))
    elif kind == "fixed":
        size = draw(st.sampled_from([1, 2, 7, 64, 100, 300, 512, 1000, 1024, 4096, 8191, 8192, 16384, 65536]) | st.integers(1, 65536))
        cuts = ("fixed", size, draw(st.integers(0, 65535)))
    elif kind == "readout-len":
        cuts = ("readout-len", draw(st.integers(-3, 3)), draw(st.integers(0, 8000)))
    else:
        cuts = (kind,)
    return (idents, n, seed, (lo, hi), checksums, tail_cut, cuts)


def interleaved_oracle(case) -> Info:
    """Two reader instances alive at once, each fed its own clean stream, calls alternating."""
    readers, chunk_lists, sent = [], [], []
    for sub in case:
        tail, readouts = build_stream(sub)
        stream = tail + b"".join(readouts)
        readers.append(dlde.ModeDReader())
        chunk_lists.append(chunks_of(stream, tuple(sub[6]), readouts))
        sent.append(readouts)
    got = [[] for _ in readers]
    for k in range(max(len(c) for c in chunk_lists)):
        for i, r in enumerate(readers):
            if k < len(chunk_lists[i]):
                got[i].extend(guarded(r.read, chunk_lists[i][k], what="ModeDReader.read"))
    for i, (g, s_) in enumerate(zip(got, sent)):
        gb = [o.as_bytes for o in g]
        if gb != s_ or not all(o.is_valid for o in g):
            fail(f"reader #{i} of {len(readers)} interleaved readers: sent {len(s_)} readouts, got {len(gb)} ({sum(1 for o in g if o.is_valid)} valid); alone the same stream is delivered completely", sig="interleaved")
    multi = all(len(c) > 1 for c in chunk_lists)
    return Info(nontrivial=multi, classes=(f"readers:{len(readers)}",))


@st.composite
def interleaved_case_st(draw):
    out = []
    for _ in range(2):
        c = list(draw(case_st()))
        c[1] = min(c[1], 25)  # keep the two streams small
        c[3] = (min(c[3][0], 10), min(c[3][1], 12))
        out.append(tuple(c))
    return out


def build() -> Check:
    return Check(
        pid="C05",
        level="exploration",
        rule=(
            "Streams of 1..200 well-formed CRLF readouts back to back (1..3 identification lines per stream, 0..200 data lines per readout "
            "so readouts range from ~15 bytes to ~6 KiB; a class of up to 3000 minimal readouts (so that a single call can return > 1000 of them) "
            "some of which carry one data line of 1000..4000 characters, checksum upper/lower/absent, streams up to several hundred KiB), optionally "
            "preceded by the tail of a readout, x splittings: single call, bytewise (small streams), random multi-cut, fixed chunk sizes "
            "1..65536 with a drawn initial offset, chunk = first readout's length +-k. Non-trivial = (>=30 readouts or >8 KiB) with at "
            "least one chunk boundary inside a readout and fewer than 1 in 10 boundaries inside an identification line. The class "
            "'no-call-starts-between-readouts' (no read() call begins exactly at a readout boundary) is counted. interleaved: two reader instances alive at once, "
            "each fed its own clean stream with alternating read() calls. Distinct = case hash."
        ),
        assumptions=[
            "The wall clock (time.monotonic/time/perf_counter) is replaced by a virtual clock; drawn gaps of 0 s .. 1 day pass between read() calls - delivery must not depend on timing.",
            "Readouts are expanded deterministically from drawn (identification lines, size range, seed) so that 100+ KiB streams fit Hypothesis's entropy budget.",
            "Every readout is < 8000 bytes ('well below 8 KiB'); identification text contains neither '/' nor '!' (IEC 62056-21).",
        ],
        clauses=[
            HypClause("clean", case_st, oracle, quick=1800, thorough=40000),
            HypClause("interleaved", interleaved_case_st, interleaved_oracle, quick=800, thorough=25000, doc="two reader instances fed alternately, each with its own clean stream"),
        ],
    )
