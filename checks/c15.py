"""C15 - AutoDecoder returns a dictionary or None for every input, and terminates."""
from __future__ import annotations

import logging
import signal
import time
import tracemalloc

from hypothesis import strategies as st

from han import autodecoder, dlde, hdlc
from han.common import DlmsMessage
from vlib import budget
from vlib.pool import DECODER_NAMES, GENUINE, NAMES, PRIME_FOR, hdlc_frame_with
from vlib.runner import BudgetExceeded, Check, FuzzClause, HypClause, Info, fail

logging.disable(logging.CRITICAL)

TAGS = [0, 1, 2, 6, 9, 10, 15, 16, 18, 22]
ENTRIES = ["payload", "payload", "dlms", "hdlc", "p1", "p1raw"]
ENTRIES_ALL = ["payload", "dlms", "hdlc", "p1"]


class _Inconclusive(BaseException):
    pass


def _alarm(_sig, _frm):
    raise _Inconclusive()


def primed(k):
    ad = autodecoder.AutoDecoder()
    if k >= 0:
        name = DECODER_NAMES[k]
        ad.decode_message_payload(GENUINE[PRIME_FOR[name]][0])
        assert ad.previous_success_decoder == name, (ad.previous_success_decoder, name)
    return ad


def make_call(ad, entry, payload):
    """Returns a zero-argument callable or None when the entry form is not constructible for this payload."""
    if entry == "payload":
        return lambda: ad.decode_message_payload(payload)
    if entry == "dlms":
        msg = DlmsMessage(payload)
        return lambda: ad.decode_message(msg)
    if entry == "hdlc":
        if not 0 < len(payload) <= 2030:
            return None
        frames = hdlc.HdlcFrameReader(False).read(hdlc_frame_with(payload))
        if len(frames) != 1 or frames[0].payload != payload:
            return None  # payload contains a flag pattern the unstuffed framing cannot carry
        return lambda: ad.decode_message(frames[0])
    if entry == "p1":
        try:
            ro = dlde.DataReadout(b"/ABC5x\r\n" + payload + b"!\r\n")
        except ValueError:
            return None
        return lambda: ad.decode_message(ro)
    if entry == "p1raw":  # the bytes ARE the readout (identification line included, well-formed or not), as a caller may build it
        try:
            ro = dlde.DataReadout(payload)
        except (ValueError, IndexError):
            return None  # the constructor refuses it: nothing to give to decode_message
        return lambda: ad.decode_message(ro)
    raise ValueError(entry)


class _Null(logging.Handler):
    def emit(self, record):
        try:
            record.getMessage()  # format the message as a real handler would
        except Exception:  # noqa: BLE001 - real handlers route formatting errors to Handler.handleError(), they never propagate
            pass


_root = logging.getLogger()
_root.addHandler(_Null())


def oracle(case) -> Info:
    tag, payload, prime, entry, mem = case[0], case[1], case[2], case[3], case[4]
    debug_logging = (len(payload) + prime) % 2 == 0
    logging.disable(logging.NOTSET if debug_logging else logging.CRITICAL)
    _root.setLevel(logging.DEBUG if debug_logging else logging.WARNING)
    try:
        return _oracle(case)
    finally:
        logging.disable(logging.CRITICAL)


def _oracle(case) -> Info:
    tag, payload, prime, entry, mem = case[0], case[1], case[2], case[3], case[4]
    n = len(payload)
    ad = primed(prime)
    call = make_call(ad, entry, payload)
    if call is None:
        return Info(nontrivial=False, classes=(f"entry:{entry}:not-constructible",))
    max_lines = 5000 + 100 * n + n * n // 4
    max_calls = 50000 + 3000 * n
    if mem:
        tracemalloc.start()
    old = signal.signal(signal.SIGALRM, _alarm)
    signal.alarm(30)
    cpu0 = time.process_time()
    try:
        try:
            res, calls, lines = budget.run(call, max_calls=max_calls, max_lines=max_lines)
        finally:
            cpu = time.process_time() - cpu0
            signal.alarm(0)
            signal.signal(signal.SIGALRM, old)
            peak = None
            if mem:
                peak = tracemalloc.get_traced_memory()[1]
                tracemalloc.stop()
    except BudgetExceeded as exc:
        fail(f"[{tag}] {entry} with remembered decoder {prime}: {exc} for a {n}-byte input {payload!r:.200}", sig="budget")
    except _Inconclusive:
        return Info(nontrivial=False, classes=("INCONCLUSIVE-30s-backstop",))
    except Exception as exc:  # noqa: BLE001 - this IS the property
        import os
        import traceback

        where = "?"
        for fr in reversed(traceback.extract_tb(exc.__traceback__)):
            if "/han/" in fr.filename:
                where = f"{os.path.basename(fr.filename)}:{fr.name}"
                break
        fail(f"[{tag}] {entry} with remembered decoder {prime}: {type(exc).__name__}: {exc!s:.120} escaped (innermost han frame {where}); input {payload.hex()[:400]}", sig=f"raise:{type(exc).__name__}:{where}")
    if res is not None and not isinstance(res, dict):
        fail(f"[{tag}] {entry}: returned {type(res).__name__}", sig="type")
    cpu_budget = 0.75 + 0.002 * n  # seconds of CPU time of this process; normal need is ~0.005 s
    if cpu > cpu_budget:
        # time spent inside C code (Decimal, int, re) is invisible to the event budgets: confirm by running the call again
        ad2 = primed(prime)
        call2 = make_call(ad2, entry, payload)
        signal.signal(signal.SIGALRM, _alarm)
        signal.alarm(60)
        try:
            c0 = time.process_time()
            try:
                call2()
            except Exception:  # noqa: BLE001
                pass
            cpu2 = time.process_time() - c0
        except _Inconclusive:
            cpu2 = 60.0
        finally:
            signal.alarm(0)
            signal.signal(signal.SIGALRM, old)
        if cpu2 > cpu_budget:
            fail(f"[{tag}] {entry} with remembered decoder {prime}: {cpu:.2f} s and again {cpu2:.2f} s of CPU time for a {n}-byte input {payload!r:.120} (budget {cpu_budget:.2f} s; genuine messages need ~0.005 s)", sig="cpu-time")
    if mem and peak is not None and peak > 2 * 1024 * 1024 + 8192 * n:
        fail(f"[{tag}] {entry}: tracemalloc peak {peak} bytes for a {n}-byte input {payload!r:.200}", sig="memory")
    classes = [f"tag:{tag}", f"entry:{entry}", "result:" + ("dict" if isinstance(res, dict) else "None"), f"prime:{prime}"]
    nt = False
    if tag in ("mutation", "truncation"):
        nt = isinstance(res, dict) or _some_grammar_parses(payload)
        if nt:
            classes.append("mutant-still-parsed-by-a-grammar")
    elif tag in ("nested", "digit-run", "regex-bait", "readout"):
        nt = True
    elif tag in ("ascii", "ascii-long"):
        nt = b"(" in payload or b")" in payload
    return Info(nontrivial=nt, classes=tuple(classes))


def _some_grammar_parses(payload):
    import construct

    from han import aidon, kaifa, kamstrup

    for g in (aidon.LlcPdu, aidon.NotificationBody, kaifa.LlcPdu, kaifa.NotificationBody, kamstrup.LlcPdu, kamstrup.NotificationBody):
        try:
            g.parse(payload)
            return True
        except (construct.ConstructError, ValueError, TypeError, KeyError, IndexError, AttributeError, OverflowError):
            continue
    return False


# ---- generators -----------------------------------------------------------------------------------------------------


def _mutate(base: bytes, ops) -> bytes:
    b = bytearray(base)
    for op in ops:
        if not b:
            break
        kind = op[0]
        if kind == "tag":
            pos = [i for i, x in enumerate(b) if x in TAGS]
            if pos:
                b[pos[op[1] % len(pos)]] = TAGS[op[2] % len(TAGS)]
        elif kind == "len":
            pos = [i + 1 for i, x in enumerate(b[:-1]) if x in (1, 2, 9, 10)]
            if pos:
                i = pos[op[1] % len(pos)]
                b[i] = (b[i] + (1 if op[2] % 2 else -1)) % 256
        elif kind == "obis":
            pos = [i + 2 for i in range(len(b) - 8) if b[i] == 9 and b[i + 1] == 6]
            if pos:
                i = pos[op[1] % len(pos)] + op[2] % 6
                b[i] = op[3] % 256
        elif kind == "dtff":
            pos = [i + 1 for i in range(len(b) - 13) if b[i] == 0x0C]
            if pos:
                i = pos[op[1] % len(pos)] + op[2] % 12
                b[i] = 0xFF if op[3] % 4 else op[3] % 256
        elif kind == "ins":
            b.insert(op[1] % (len(b) + 1), op[2] % 256)
        elif kind == "del":
            del b[op[1] % len(b)]
        elif kind == "set":
            b[op[1] % len(b)] = op[2] % 256
        elif kind == "count":  # first or second byte of a list header (element count)
            i = op[1] % min(len(b), 14)
            b[i] = op[2] % 256
    return bytes(b)


_op = st.one_of(
    st.tuples(st.just("tag"), st.integers(0, 999), st.integers(0, 99)),
    st.tuples(st.just("len"), st.integers(0, 999), st.integers(0, 1)),
    st.tuples(st.just("obis"), st.integers(0, 99), st.integers(0, 5), st.integers(0, 255)),
    st.tuples(st.just("dtff"), st.integers(0, 99), st.integers(0, 11), st.integers(0, 255)),
    st.tuples(st.just("ins"), st.integers(0, 9999), st.integers(0, 255)),
    st.tuples(st.just("del"), st.integers(0, 9999)),
    st.tuples(st.just("set"), st.integers(0, 9999), st.integers(0, 255)),
    st.tuples(st.just("count"), st.integers(0, 13), st.integers(0, 255)),
)

_ascii_tok = st.sampled_from(
    ["1.8.0", "1-0:1.8.0", "0-0:1.0.0", "(", ")", "(123)", "(123*kWh)", "*kWh", "*", "xyz", "\r\n", "\n", "(2102221619", "00W)", "!", "))", "((", "()", "1.8.0(123)xyz", "(1*2*3)", "1.0.0(xx)", "1.0.0(9913320000)", "abc(1)", "(1)", ":", "-", ".", "1.8.0(1e999*kW)", "1.8.0(nan*kW)", "1.8.0(1E300000*kWh)", "1.8.0(9e99999*kvarh)", "(1E999990*kWh)", "3.8.0(1e-999999*kvarh)", "1.7.0(0x1F*kW)", "1.7.0(1_0*kW)", "32.7.0(1E400000*V)", "1.8.0(*kW)", "1.8.0(1)(2", "999.999.999(1)", "1.8(1)", " ", "\t"]
) | st.text(alphabet="0123456789.()*-:kWhVA \r\n", max_size=8)


def nested(depth: int, shape: int, leaf: bytes, obis_octets: bytes) -> bytes:
    """A chain of COSEM structures/arrays nested `depth` levels deep (legal encoding, absurd content)."""
    body = leaf
    for _ in range(depth):
        if shape == 0:  # structure { obis, <next level>, integer }
            body = bytes([2, 3, 9, 6]) + obis_octets + body + bytes([15, 0])
        elif shape == 1:  # structure { <next level> }
            body = bytes([2, 1]) + body
        elif shape == 2:  # array [ <next level>, <next level> ] would double the size: array of one
            body = bytes([1, 1]) + body
        elif shape == 3:  # structure { null, <next level> }
            body = bytes([2, 2, 0]) + body
        else:  # structure { obis, <next level>, scaler-unit }
            body = bytes([2, 3, 9, 6]) + obis_octets + body + bytes([2, 2, 15, 0, 22, 27])
    return body


@st.composite
def case_st(draw):
    tag = draw(st.sampled_from(["random", "truncation", "mutation", "mutation", "mutation", "ascii", "ascii", "ascii-long", "nested", "digit-run", "readout", "regex-bait"]))
    forced_entry = None
    if tag == "readout":  # a whole readout with a well-formed or damaged identification line / end line, handed over as a DataReadout
        ident = draw(st.sampled_from([b"/ADN9 6534", b"/AD9 6534", b"/adn9 6534", b"/ADNx 6534", b"/ADN9 65\xb4", b"/ADN9 " + b"6" * 40, b"/", b"/\\", b"/ABC5\\", b"/ABC", b"/\xff\xfe", b"/ABC5\\2\\", b"/ABC5x"]) | st.binary(max_size=12).map(lambda b: b"/" + b))
        data = "".join(draw(st.lists(_ascii_tok, max_size=6))).encode("ascii")
        end = draw(st.sampled_from([b"!", b"!\r\n", b"!0000\r\n", b"!zz\r\n", b"!\xff\r\n", b"!12345\r\n", b"! \r\n"]))
        payload = draw(st.sampled_from([b"", b" ", b"\r\n"])) + ident + draw(st.sampled_from([b"\r\n", b"\n", b"\r\n\r\n", b""])) + data + end
        forced_entry = "p1raw"
    elif tag == "regex-bait":  # a long run of one token class followed by one stray character, in every position of a data line
        tok = draw(st.sampled_from(["0", "9", "0.", "1.", "00", "a", "A", " ", "-", "1-", ":", "1:", ".", "*", "0*", "k", "(", ")", "()", "(0)", "\\", "\t"]))
        n = draw(st.sampled_from([25, 28, 31, 40, 64, 200]))
        run = (tok * n)[: max(n, 25)]
        stray = draw(st.sampled_from(["W", "x", "!", " ", ".", "-", "(", ")", "*", "\x00", "#", "é".encode("latin-1").decode("latin-1"), ""]))
        unit = draw(st.sampled_from(["kWh", "kW", "V", "A", "var", "varh", "kvar", "kvarh", "kVArh", "", "W"]))
        where = draw(st.sampled_from(["value", "value", "address", "unit", "cde", "second-value", "line"]))
        addr = draw(st.sampled_from(["1-0:1.8.0", "1-0:32.7.0", "1-0:31.7.0", "0-0:1.0.0", "1-0:1.7.0", "1.8.0", "0-0:96.1.0"]))
        line = {
            "value": f"{addr}({run}{stray}*{unit})",
            "address": f"{run}{stray}(1*{unit})",
            "unit": f"{addr}(1*{run}{stray})",
            "cde": f"1-0:{run}{stray}(1*{unit})",
            "second-value": f"{addr}(1)({run}{stray}*{unit})",
            "line": f"{run}{stray}",
        }[where]
        payload = (draw(st.sampled_from(["", "\r\n", "0-0:1.0.0(230101120000W)\r\n"])) + line + draw(st.sampled_from(["\r\n", "", "\r\n1-0:1.7.0(1*kW)\r\n"]))).encode("latin-1")
    elif tag == "random":
        payload = draw(st.binary(max_size=64) | st.binary(max_size=600))
    elif tag == "truncation":
        base = GENUINE[draw(st.sampled_from(NAMES))][0]
        payload = base[: draw(st.integers(0, len(base)))]
    elif tag == "mutation":
        base = GENUINE[draw(st.sampled_from(NAMES))][0]
        payload = _mutate(base, draw(st.lists(_op, min_size=1, max_size=5)))
    elif tag == "nested":
        depth = draw(st.sampled_from([3, 8, 12, 16, 20, 26, 40, 100]))
        core = nested(depth, draw(st.integers(0, 4)), draw(st.sampled_from([b"\x06\x00\x00\x00\x01", b"\x00", b"\x0a\x01A", b"\x09\x0c" + bytes(12)])), draw(st.sampled_from([bytes([1, 0, 1, 7, 0, 0x7F]), bytes([1, 0, 1, 7, 0, 0xFF])])))
        wrap = draw(st.sampled_from(["body-struct", "body-array", "frame"]))
        payload = (bytes([2, 1]) + core) if wrap == "body-struct" else ((bytes([1, 1]) + core) if wrap == "body-array" else bytes.fromhex("e6e7000f4000000000") + bytes([2, 1]) + core)
    elif tag == "digit-run":
        n = draw(st.sampled_from([20, 30, 40, 64, 200]))
        digits = "".join(draw(st.sampled_from(["4530", "0", "9", "123"])) for _ in range(n))[:n]
        payload = (digits + draw(st.sampled_from(["W(1)", "(1)", ".(1)", "x", "-(1)", "*(1)", ":1.8.0(1)"])) + draw(st.sampled_from(["\r\n", ""]))).encode("ascii")
    elif tag == "ascii-long":  # long inputs: super-polynomial blow-ups show up here
        unit = "".join(draw(st.lists(_ascii_tok, min_size=1, max_size=5)))
        payload = (unit * draw(st.sampled_from([20, 100, 400])))[:6000].encode("ascii") + "".join(draw(st.lists(_ascii_tok, max_size=2))).encode("ascii")
    else:
        payload = "".join(draw(st.lists(_ascii_tok, min_size=1, max_size=8))).encode("ascii")
    prime = draw(st.integers(-1, 6))
    entry = forced_entry or draw(st.sampled_from(ENTRIES))
    mem = tag in ("ascii", "ascii-long") or draw(st.integers(0, 19)) == 0
    return (tag, payload, prime, entry, mem)


_HEADS = [b"\x00\x01", b"\x00\x00", b"\xe6\xe7", b"\xe6\xe6", b"\x02\x00", b"\x02\x01", b"\x01\x00", b"\x01\x01", b"\x0f\x00", b"\x09\x0c", b"/A", b"1.", b"\x7e\xa0", b"\xff\xff"]
_FILLS = [b"\x00", b"\xff", b"\x01\x02\x03\x04\x05\x06\x07\x08\x09"]


def short_payloads():
    """Every (two-octet head, total length 0..12, fill) combination: the shortest messages, where header parsing can run off the end."""
    out = [b""]
    for h in _HEADS:
        for n in range(1, 13):
            for f in _FILLS:
                out.append((h + f * 12)[:n])
    return sorted(set(out))


def exhaustive_truncations():
    return [(name, k) for name in NAMES for k in range(len(GENUINE[name][0]) + 1)]


def build() -> Check:
    from vlib.runner import EnumClause

    trunc = exhaustive_truncations()
    shorts = short_payloads()

    def short_case(i, tier):
        p_, rest = shorts[i // (len(ENTRIES_ALL) * 8)], i % (len(ENTRIES_ALL) * 8)
        return ("short", p_, (rest % 8) - 1, ENTRIES_ALL[rest // 8], False)

    def trunc_case(i, tier):
        name, k = trunc[i]
        return ("truncation", GENUINE[name][0][:k], (i % 8) - 1, ENTRIES[:5][i % 5], False)

    return Check(
        pid="C15",
        level="exploration",
        hang_is_violation=True,
        hang_limit_s=120.0,
        rule=(
            "inputs: random bytes; COSEM structures/arrays nested 3..100 levels deep (five shapes); P1 addresses made of 20..200 digits without separators; truncations and 1..5 structured mutations (COSEM type tag replaced by another tag, length/count octet +-1 or "
            "set, OBIS octet changed, date-time octet set to 0xFF, insert/delete/overwrite) of every genuine message of the pool (33 "
            "fixtures + 8 generated, frame and body forms, P1 blocks); ASCII fragments from P1 tokens with unbalanced parentheses, trailing "
            "garbage, several '*', non-numeric values, also repeated 20..400 times (inputs up to 6 KB). Each with a remembered decoder drawn from {none, 0..6} (AutoDecoder primed with a "
            "genuine message of that decoder) and an entry point drawn from decode_message_payload, decode_message(DlmsMessage), "
            "decode_message(reader-produced HdlcFrame), decode_message(DataReadout). truncations: EVERY truncation of every pool message "
            "(enumerated). short-payloads: EVERY combination of 14 two-octet heads x total length 0..12 x 3 fill patterns x 4 entry points x 8 "
            "remembered-decoder states (enumerated). Oracle: result is dict or None, no exception escapes, deterministic budgets hold: line events in han/ <= "
            "5000+100n+n^2/4, Python calls <= 50000+3000n (sys.monitoring), CPU time <= 0.75 s + 2 ms*n (twice), tracemalloc peak <= 2 MiB + 8 KiB*n on all ASCII cases and a 1-in-20 "
            "sample. Non-trivial = mutated/truncated genuine message that some decoder grammar still parses (or that decodes), or an ASCII "
            "fragment containing a parenthesis. Failures are bucketed by (exception type, innermost han function). coverage-guided: atheris "
            "(libFuzzer) campaigns with han/ instrumented on the same oracle, half from an empty corpus and half seeded with the pool; "
            "executions are counted in evaluations but not in distinct_nontrivial."
            " Entry p1raw: the bytes are a whole readout handed over as DataReadout(bytes) (not constructible = skipped); tag readout: well-formed / damaged identification and end lines; tag regex-bait: 25-200 repetitions of one token (digit, '0.', letter, blank, '-', ':', '(' ...) + one stray character as value / address / unit / C.D.E / second value / whole line with every unit."
        ),
        assumptions=[
            "A call that never returns inside non-interruptible C code (e.g. catastrophic regular-expression backtracking) is detected by the runner's heartbeat: the worker is killed after 120 s without progress and the in-flight case is reported as a violation (sig hang).",
            "Half of the cases run with the library's DEBUG logging enabled (a handler that formats every record), half with logging disabled: arguments of log calls are evaluated only when logging is on.",
            "Budgets are deterministic counters, not wall-clock; a 30 s SIGALRM backstop only marks a case inconclusive (class INCONCLUSIVE-30s-backstop).",
            "Measured need on genuine messages: <= 64 calls and <= 13 line events per input byte; the budgets leave > x40 headroom.",
            "Time spent inside C code (regular expressions, int(), Decimal) is not counted by the event budgets; it is bounded separately by a CPU-time budget of 0.75 s + 2 ms/byte (process_time, ~150x the normal need), reported only if a second run of the same call exceeds it too.",
        ],
        clauses=[
            HypClause("inputs", case_st, oracle, quick=16000, thorough=600000),
            EnumClause("truncations", size=lambda tier: len(trunc), case_at=trunc_case, oracle=oracle, doc="every truncation of every pool message"),
            EnumClause("short-payloads", size=lambda tier: len(shorts) * len(ENTRIES_ALL) * 8, case_at=short_case, oracle=oracle, doc="every short payload (14 two-octet heads x lengths 0..12 x 3 fills) x 4 entry points x 8 remembered-decoder states"),
            FuzzClause("coverage-guided", "C15", oracle, quick=(2, 1500), thorough=(16, 120000), max_len=700, doc="atheris/libFuzzer campaigns on the same oracle (raw bytes -> remembered decoder, entry point, payload), empty and fixture corpora"),
        ],
    )
