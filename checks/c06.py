"""C06 - HDLC reader output does not depend on how the byte stream is chunked (metamorphic)."""
from __future__ import annotations

import itertools
import logging

from hypothesis import strategies as st

from checks import c01
from han import hdlc
from vlib import gen_hdlc as G
from vlib.ref_hdlc import ESC, FLAG, stuff
from vlib.runner import Check, EnumClause, HypClause, Info, fail, guarded

logging.disable(logging.CRITICAL)


def run(stuffing, abort, chunks):
    reader = hdlc.HdlcFrameReader(use_octet_stuffing=stuffing, use_abort_sequence=abort)
    out = []
    kept = []  # the list objects handed out by read(), with a snapshot taken at return time
    from vlib import fakeclock

    gaps = fakeclock.gaps_for(len(chunks), ("none", "mixed", "long")[len(chunks) % 3], len(chunks)) if 1 < len(chunks) <= 5000 else [0.0] * len(chunks)
    with fakeclock.FakeClock() as clk:
        return _run_clocked(reader, chunks, gaps, clk, out, kept)


def _run_clocked(reader, chunks, gaps, clk, out, kept):
    for ch, gap in zip(chunks, gaps):
        clk.advance(gap)  # virtual seconds pass between the calls of a split run: the result must not depend on timing
        lst = guarded(reader.read, ch, what="HdlcFrameReader.read")
        snap = [(guarded(lambda: fr.as_bytes), bool(guarded(lambda: fr.is_valid)), guarded(lambda: fr.payload)) for fr in lst]
        kept.append((lst, snap))
        out.extend(snap)
    # a result already returned must not be changed by later calls (a caller may keep it)
    for k, (lst, snap) in enumerate(kept):
        now = [(fr.as_bytes, bool(fr.is_valid), fr.payload) for fr in lst]
        if now != snap:
            fail(f"the list returned by read() call #{k} of {len(kept)} changed after later calls: had {len(snap)} frames, now {len(now)}", sig="returned-list-mutated")
    return out, reader


def state_of(reader):
    """Observable carry-over state: hunt mode and pending escape (public properties)."""
    return (reader.is_in_hunt_mode, reader.unescape_next)


def compare(stuffing, abort, stream, base, chunks, how):
    got, _ = run(stuffing, abort, chunks)
    if got != base:
        n = min(len(got), len(base))
        i = next((k for k in range(n) if got[k] != base[k]), n)
        fail(
            f"cfg stuffing={stuffing} abort={abort} stream {stream.hex()[:400]}: single call gives {len(base)} frames, splitting {how} gives {len(got)}; "
            f"first difference at #{i}: single={base[i] if i < len(base) else None!r:.160} split={got[i] if i < len(got) else None!r:.160}",
            sig="chunking",
        )


def oracle_stream(case) -> Info:
    """case = (stuffing, abort, stream, cuts): single call vs bytewise vs the drawn splitting."""
    stuffing, abort, stream, cuts = case[0], case[1], case[2], tuple(case[3])
    base, rd = run(stuffing, abort, [stream])
    compare(stuffing, abort, stream, base, G.split(stream, ("bytewise",)), "bytewise")
    if cuts[0] not in ("none", "bytewise"):
        chunks = G.split(stream, cuts)
        compare(stuffing, abort, stream, base, chunks, str(cuts)[:60])
        compare(stuffing, abort, stream, base, [x for ch in chunks for x in (ch, b"")], str(cuts)[:60] + " with an empty read() after every chunk")
    cps = G.cut_points(stream, cuts) if cuts[0] != "none" else set(range(1, len(stream)))
    near_special = any((c < len(stream) and stream[c] in (FLAG, ESC)) or (c > 0 and stream[c - 1] in (FLAG, ESC)) for c in cps)
    mid_frame = not rd.is_in_hunt_mode
    nt = (bool(base) or mid_frame) and near_special
    return Info(nontrivial=nt, classes=(f"cfg:{int(stuffing)}{int(abort)}", f"cuts:{cuts[0]}", "frames>0" if base else "frames=0", "ends-mid-frame" if mid_frame else "ends-hunting"))


# --- noise-dense streams -------------------------------------------------------------------------------

_dense = st.lists(st.sampled_from([FLAG, FLAG, ESC, ESC, 0x5E, 0x5D, 0xA0, 0x07, 0x08, 0x01, 0x02, 0x10, 0x00, 0xFF]), min_size=0, max_size=60).map(bytes)


@st.composite
def dense_case_st(draw):
    stuffing, abort = draw(G.config_st)
    return (stuffing, abort, draw(_dense), draw(G.cuts_st()))


# --- frames around and beyond the 2047-octet maximum ----------------------------------------------------------------------


@st.composite
def overlong_case_st(draw):
    """flag + L flag-free octets (L around 2047 or far beyond) + flag + good frame(s): the over-long discard must not depend on chunking."""
    import random

    stuffing, abort = draw(G.config_st)
    L = draw(st.sampled_from([2040, 2046, 2047, 2048, 2049, 2060, 2100, 3000, 4100]) | st.integers(2030, 4200))
    rnd = random.Random(draw(st.integers(0, 2**31)))
    mode = draw(st.sampled_from(["random", "dense", "header-2047", "ones"]))
    if mode == "random":
        junk = bytes(o for o in rnd.randbytes(L + 64) if o != FLAG)[:L]
    elif mode == "dense":
        junk = bytes(rnd.choice([ESC, 0x5E, 0x5D, 0xA0, 0x03, 0x01]) for _ in range(L))
    elif mode == "header-2047":
        junk = (b"\xa7\xff\x01\x01\x10\x38\x83" + bytes(o for o in rnd.randbytes(L + 64) if o != FLAG))[:L]
    else:
        junk = b"\x01" * L  # (all-even octets would make the address scan quadratic - irrelevant here and slow)
    tail = b"".join(bytes([FLAG]) + G.wire(f, stuffing) for f in (_SHORT, _SHORT2, _HDRONLY)[: draw(st.integers(1, 3))]) + bytes([FLAG])
    stream = draw(st.sampled_from([b"", b"\x01\x02"])) + bytes([FLAG]) + junk + tail
    cuts = draw(st.one_of(G.cuts_st(), st.tuples(st.just("fixed"), st.sampled_from([64, 500, 512, 1000, 1024, 2047, 2048, 2049, 3000, 4096]), st.integers(0, 4095)), st.tuples(st.just("single"), st.integers(2030, 2200))))
    return (stuffing, abort, stream, cuts)


# --- special frames: same length in a row, last octet 7D/7E, checksummed frames without room for control/HCS, 7D 7D pairs near the limit


def _addr_only_frame(n_even: int) -> bytes:
    """Length and FCS are right, but the address field fills the frame: no control field, no HCS (discarded as too short)."""
    from vlib.ref_fcs import fcs16_octets

    total = 2 + n_even + 1 + 2
    body = bytes([0xA0 | (total >> 8), total & 0xFF]) + bytes([0x02]) * n_even + bytes([0x03])
    return body + fcs16_octets(body)


@st.composite
def special_case_st(draw):
    import random

    stuffing, abort = draw(G.config_st)
    kind = draw(st.sampled_from(["same-length", "same-length", "addr-only", "escape-pairs-near-limit"]))
    rnd = random.Random(draw(st.integers(0, 2**31)))
    if kind == "same-length":
        n = draw(st.integers(2, 5))
        L = draw(st.sampled_from([3, 8, 20]))
        frames = []
        for i in range(n):
            spec = {"ftype": 0xA, "seg": 0, "dest": b"\x03", "src": b"\x21", "control": 0x13, "info": rnd.randbytes(L)}
            if i and rnd.random() < 0.6:
                spec = G.force_last_octet(spec, rnd.choice([ESC, FLAG])) or spec  # same length, but the last octet is 7D or 7E
            frames.append(G.frame_from_spec(spec))
        stream = b"".join(bytes([FLAG]) + G.wire(f, stuffing) for f in frames) + bytes([FLAG])
    elif kind == "addr-only":
        pieces = [bytes([FLAG]) + G.wire(_SHORT, stuffing), bytes([FLAG]) + G.wire(_addr_only_frame(draw(st.sampled_from([1, 3, 6, 12]))), stuffing), bytes([FLAG]) + G.wire(_SHORT2, stuffing), bytes([FLAG])]
        stream = b"".join(pieces)
    else:
        # raw content un-stuffing to 2044..2051 octets with several 7D 7D pairs; cuts exactly between the two escape octets
        target = draw(st.sampled_from([2044, 2046, 2047, 2048, 2049, 2051]))
        raw = bytearray(b"\xa7\xff\x01\x01\x10\x38\x83")
        unst = len(raw)
        pair_pos = []
        while unst < target:
            if rnd.random() < 0.02 and unst + 1 <= target:
                pair_pos.append(len(raw) + 1)
                raw += bytes([ESC, ESC])  # un-stuffs to one octet (5D)
                unst += 1
            else:
                raw.append(rnd.choice([0x01, 0x11, 0x5E, 0xA0]))
                unst += 1
        if not pair_pos:
            pair_pos.append(len(raw) + 1)
            raw += bytes([ESC, ESC])
        stream = bytes([FLAG]) + bytes(raw) + bytes([FLAG]) + G.wire(_SHORT, stuffing) + bytes([FLAG])
        cut = 1 + draw(st.sampled_from(pair_pos))
        return (stuffing, abort, stream, ("at", (cut,)))
    cuts = draw(st.one_of(G.cuts_st(), st.tuples(st.just("fixed"), st.sampled_from([len(stream) // 2 + 1, 64, 1000]), st.just(0))))
    return (stuffing, abort, stream, cuts)


# --- structured exhaustive token sequences ----------------------------------------------------------------

_SHORT = G.build_frame(0xA, 0, b"\x03", b"\x21", 0x13, b"\x7d\x5e\x7e\x01")  # 7D, 5E, 7E inside the information field
_HDRONLY = G.build_frame(0xA, 0, b"\x03", b"\x21", 0x93, None)
_SHORT2 = G.build_frame(0xA, 0, b"\x02\x23", b"\x21", 0x10, b"\x01\x02")
TOKENS = [
    ("flag", bytes([FLAG])),
    ("esc", bytes([ESC])),
    ("frame", _SHORT),
    ("hdr-only", _HDRONLY),
    ("trunc-after-hcs", _SHORT[:7]),
    ("cut-mid-header", _SHORT2[:4]),
    ("odd", b"\x03"),
    ("even", b"\x02"),
    ("5e", b"\x5e"),
    ("stuffed-frame", stuff(_SHORT)),
]
NTOK = len(TOKENS)


def _seq_count(maxlen):
    return sum(NTOK**k for k in range(1, maxlen + 1))


def seq_at(i, tier):
    k = 1
    while i >= NTOK**k:
        i -= NTOK**k
        k += 1
    seq = []
    for _ in range(k):
        i, r = divmod(i, NTOK)
        seq.append(r)
    return tuple(seq)


def oracle_tokens(seq) -> Info:
    """All four configurations x {bytewise, every single cut, token-boundary cuts} against the single call."""
    stream = b"".join(TOKENS[t][1] for t in seq)
    any_frames = False
    mid = False
    for stuffing, abort in G.CONFIGS:
        base, rd = run(stuffing, abort, [stream])
        any_frames |= bool(base)
        mid |= not rd.is_in_hunt_mode
        compare(stuffing, abort, stream, base, [stream[i : i + 1] for i in range(len(stream))], "bytewise")
        for k in range(1, len(stream)):
            compare(stuffing, abort, stream, base, [stream[:k], stream[k:]], f"single cut at {k}")
            if stream[k - 1] in (FLAG, ESC) or stream[k] in (FLAG, ESC):
                compare(stuffing, abort, stream, base, [stream[:k], b"", stream[k:]], f"single cut at {k} with an empty read() in between")
        # token-boundary multi-cut, and an empty chunk in the middle
        compare(stuffing, abort, stream, base, [TOKENS[t][1] for t in seq], "token boundaries")
        h = len(stream) // 2
        compare(stuffing, abort, stream, base, [stream[:h], b"", stream[h:], b""], "empty chunks")
    return Info(nontrivial=any_frames or mid, classes=(f"len:{len(seq)}", "frames" if any_frames else "noframes"), sample=[TOKENS[t][0] for t in seq])


# ---- an escape octet followed by EVERY octet value, both octets in one chunk or split -------------------------------------------------


def escape_pair_case(i, tier):
    return (i % 256, i // 256)


def escape_pair_oracle(case) -> Info:
    x, shape = case
    y = x ^ 0x20
    if shape == 0:  # a frame that is valid once un-stuffed: the payload octet y travels as 7D x (escaped although it may not need to be)
        fr = G.build_frame(0xA, 0, b"\x03", b"\x21", 0x13, bytes([0xE6, 0xE7, 0x00, y, 0x0F, 0x01]))
        k = 7 + 3  # position of y inside the frame (2 format + 1 + 1 addresses + control + 2 HCS, then 3 payload octets)
        assert fr[k] == y
        wire = bytes([FLAG]) + fr[:k] + bytes([ESC, x]) + fr[k + 1 :] + bytes([FLAG])
    elif shape == 1:  # two pairs in a row, then a second (plain) frame sharing the flag
        fr = G.build_frame(0xA, 0, b"\x03", b"\x21", 0x13, bytes([0x01, y, y, 0x02]))
        k = 7 + 1
        assert fr[k] == y and fr[k + 1] == y
        wire = bytes([FLAG]) + fr[:k] + bytes([ESC, x, ESC, x]) + fr[k + 2 :] + bytes([FLAG]) + G.build_frame(0xA, 0, b"\x03", b"\x21", 0x13, b"\x01\x02") + bytes([FLAG])
    else:  # the pair inside the header (destination address position) and right before the closing flag
        fr = G.build_frame(0xA, 0, b"\x03", b"\x21", 0x13, b"\x01\x02")
        wire = bytes([FLAG]) + fr[:2] + bytes([ESC, x]) + fr[3:] + bytes([ESC, x, FLAG]) + fr + bytes([FLAG])
    frames_any = False
    for stuffing, abort in G.CONFIGS:
        base, _rd = run(stuffing, abort, [wire])
        frames_any |= bool(base)
        compare(stuffing, abort, wire, base, [wire[i : i + 1] for i in range(len(wire))], "bytewise")
        for c in range(1, len(wire)):
            compare(stuffing, abort, wire, base, [wire[:c], wire[c:]], f"single cut at {c}")
            compare(stuffing, abort, wire, base, [wire[:c], b"", wire[c:]], f"single cut at {c} with an empty read() in between")
    return Info(nontrivial=frames_any, classes=(f"shape:{shape}",), sample={"escaped_octet": x, "shape": shape})


def build() -> Check:
    return Check(
        pid="C06",
        level="exploration",
        rule=(
            "streams: the C01 stream generator (good/defective/noise tokens) and flag/escape-dense noise, each compared single-call vs "
            "bytewise vs a drawn splitting, per configuration; non-trivial = the stream yields >=1 frame or leaves the reader mid-frame "
            "AND the compared splitting has a cut adjacent to a 7E/7D. special-frames: 2-5 frames of identical length in a row (some forced to end in 7D or 7E); correctly check-summed frames "
            "whose address field leaves no room for control/HCS; raw runs un-stuffing to 2044..2051 octets with 7D 7D pairs and a cut exactly "
            "between the two escape octets. overlong: flag + 2030..4200 flag-free octets (random, 7D-dense, a header announcing "
            "2047 octets, 01 filler) + 1..3 good frames, with chunk sizes around 2047/2048 and cuts near the limit. tokens: ALL sequences of <=4 (quick) / <=6 (thorough) tokens over "
            "{flag, escape, valid frame with 7D/5E/7E in its information field, header-only frame, frame truncated after the HCS, frame "
            "cut mid-header, odd octet, even octet, 5E, stuffed valid frame} x 4 configurations x {bytewise, every single cut, token "
            "boundaries, empty chunks}; non-trivial = some configuration yields a frame or ends mid-frame. Distinct = case hash."
            ' escape-pairs: an escape octet followed by each of the 256 octet values (in a payload that is valid once un-stuffed, twice in a row, in the header, before the closing flag), all four configurations, whole stream vs bytewise vs every single cut.'
        ),
        assumptions=["A list (and its frames) returned by read() is snapshotted at return time and compared again after all later calls: a result the caller keeps must not change.", "Frames are compared as (as_bytes, is_valid, payload) tuples; the single-call result is the reference (metamorphic relation, no absolute oracle)."],
        extra=lambda: {"exhaustive_subdomains": ["tokens: every token sequence up to the tier's length, every single cut"]},
        clauses=[
            HypClause("streams", c01.case_st, oracle_stream, quick=12000, thorough=250000),
            HypClause("dense", dense_case_st, oracle_stream, quick=12000, thorough=250000),
            HypClause("special-frames", special_case_st, oracle_stream, quick=2500, thorough=50000, doc="same-length frames in a row incl. last octet 7D/7E; frames without room for control/HCS; 7D 7D pairs near 2047 with a cut between them"),
            HypClause("overlong", overlong_case_st, oracle_stream, quick=1500, thorough=30000, doc="frames around / beyond the 2047-octet maximum followed by good frames"),
            EnumClause("escape-pairs", size=lambda tier: 256 * 3, case_at=escape_pair_case, oracle=escape_pair_oracle, doc="7D followed by each of the 256 octet values: inside a payload (valid once un-stuffed), twice in a row, inside the header and before the closing flag; all four configurations x whole / bytewise / every single cut"),
            EnumClause("tokens", size=lambda tier: _seq_count(4 if tier == "quick" else 6), case_at=seq_at, oracle=oracle_tokens, doc="exhaustive token sequences x all single cuts"),
        ],
    )
