"""C12 - AutoDecoder picks a decoder that accepts the message, across any history (model-based)."""
from __future__ import annotations

import logging

from hypothesis import strategies as st

from checks import c11, c15
from han import aidon, autodecoder, dlde, hdlc, kaifa, kamstrup
from han.common import DlmsMessage
from vlib import gen_cosem as C
from vlib.pool import DECODER_NAMES, GENUINE, NAMES, hdlc_frame_with
from vlib.runner import Check, EnumClause, HypClause, Info, fail, guarded

logging.disable(logging.CRITICAL)

# the seven individual decoders, looked up by module - not via AutoDecoder's own table
INDIVIDUAL = [
    aidon.decode_frame_content,
    kaifa.decode_frame_content,
    kamstrup.decode_frame_content,
    dlde.decode_p1_readout_content,
    aidon.decode_notification_body,
    kaifa.decode_notification_body,
    kamstrup.decode_notification_body,
]

_accept_cache = {}


def accepts(payload: bytes):
    """[dict | None] * 7: what each individual decoder returns for the payload ('accepts' = returns a dict)."""
    r = _accept_cache.get(payload)
    if r is None:
        r = []
        for fn in INDIVIDUAL:
            try:
                d = fn(payload)
                r.append(dict(d) if isinstance(d, dict) else None)
            except Exception:  # noqa: BLE001 - a decoder that raises does not accept
                r.append(None)
        if len(_accept_cache) > 20000:
            _accept_cache.clear()
        _accept_cache[payload] = r
    return r


_BYSTANDER_POOL = None


def run_history(payloads, via=None, bystander=None):
    """Drive one AutoDecoder through the payloads, checking the model invariant after every step.
    via[i] in (None, 'dlms', 'hdlc'): use decode_message with that message form and compare with a twin."""
    ad = autodecoder.AutoDecoder()
    twin = autodecoder.AutoDecoder()
    other = autodecoder.AutoDecoder() if bystander else None  # a second, unrelated AutoDecoder alive at the same time
    remembered = None  # model: index of the decoder that produced the latest non-None result
    stats = {"none": 0, "some": 0, "switch": 0}
    for step, p in enumerate(payloads):
        if other is not None:
            try:
                other.decode_message_payload(bystander[step % len(bystander)])
            except Exception:  # noqa: BLE001 - the bystander's own outcome is not judged here
                pass
        acc = accepts(p)
        form = via[step] if via else None
        if form in ("hdlc", "hdlc-badfcs", "hdlc-seg"):
            wire_ = hdlc_frame_with(p, seg=1 if form == "hdlc-seg" else 0) if 0 < len(p) <= 2030 else b""
            if form == "hdlc-badfcs" and wire_:
                wire_ = wire_[:-2] + bytes([wire_[-2] ^ 0x01]) + wire_[-1:]  # one FCS bit flipped: an invalid frame with the same payload
            frames = hdlc.HdlcFrameReader(False).read(wire_) if wire_ else []
            ok = len(frames) == 1 and frames[0].payload == p and frames[0].is_valid == (form != "hdlc-badfcs")
            form = "hdlc" if ok else None
        if form == "p1":
            # the payload as the data block of a DataReadout object: the P1 decoder then works on the readout, the others on its payload
            ro = None
            if p and b"!" not in p and p[:1] not in b" \t\r\n\x0b\x0c":
                try:
                    ro = dlde.DataReadout(b"/ABC5x\r\n" + p + b"!\r\n")
                except (ValueError, IndexError):
                    ro = None
            if ro is not None and ro.payload == p:
                acc = list(acc)
                try:
                    d = dlde.decode_p1_readout(ro)
                    acc[DECODER_NAMES.index("P1")] = dict(d) if isinstance(d, dict) else None
                except Exception:  # noqa: BLE001 - a decoder that raises does not accept
                    acc[DECODER_NAMES.index("P1")] = None
            else:
                form = None
        if form == "p1":
            res = guarded(ad.decode_message, ro, what="AutoDecoder.decode_message(DataReadout)")
        elif form == "dlms":
            res = guarded(ad.decode_message, DlmsMessage(p), what="AutoDecoder.decode_message(DlmsMessage)")
        elif form == "hdlc":
            res = guarded(ad.decode_message, frames[0], what="AutoDecoder.decode_message(HdlcFrame)")
        else:
            res = guarded(ad.decode_message_payload, p, what="AutoDecoder.decode_message_payload")
        if form == "p1":  # the twin gets an equal readout object, so that both remember the same decoder afterwards
            tres = guarded(twin.decode_message, dlde.DataReadout(b"/ABC5x\r\n" + p + b"!\r\n"), what="AutoDecoder.decode_message(DataReadout)")
            if tres != res or twin.previous_success_decoder != ad.previous_success_decoder:
                fail(f"step {step}: two AutoDecoders with the same history disagree on equal DataReadout objects: {res!r:.100} / {ad.previous_success_decoder} vs {tres!r:.100} / {twin.previous_success_decoder}", sig="twin-disagrees")
        else:
            tres = guarded(twin.decode_message_payload, p, what="AutoDecoder.decode_message_payload") if p else None
        name = guarded(lambda: ad.previous_success_decoder)
        ctx = f"step {step} of {len(payloads)} (payload {p.hex()[:60]}.., {len(p)} bytes, remembered before: {DECODER_NAMES[remembered] if remembered is not None else None})"
        if form in ("dlms", "hdlc") and p and (res != tres or name != twin.previous_success_decoder):
            fail(f"{ctx}: decode_message({form}) gave {res!r:.120} / {name}, decode_message_payload on a twin gave {tres!r:.120} / {twin.previous_success_decoder}", sig="message-vs-payload")
        if not any(a is not None for a in acc):
            if res is not None:
                fail(f"{ctx}: no individual decoder accepts, but AutoDecoder returned {res!r:.160}", sig="result-from-nowhere")
            want_name = DECODER_NAMES[remembered] if remembered is not None else None
            if name != want_name:
                fail(f"{ctx}: rejected payload changed previous_success_decoder from {want_name} to {name}", sig="remembered-changed-by-reject")
            stats["none"] += 1
            continue
        if res is None:
            fail(f"{ctx}: AutoDecoder returned None although {[DECODER_NAMES[i] for i, a in enumerate(acc) if a is not None]} accept", sig="none-although-accepted")
        if remembered is not None and acc[remembered] is not None and res != acc[remembered]:
            fail(f"{ctx}: the remembered decoder {DECODER_NAMES[remembered]} accepts, but the result is not its result", sig="remembered-not-preferred")
        if not any(a is not None and a == res for a in acc):
            fail(f"{ctx}: result {res!r:.160} is not the result of any accepting decoder", sig="result-from-nowhere")
        if name not in DECODER_NAMES:
            fail(f"{ctx}: previous_success_decoder = {name!r}", sig="name")
        idx = DECODER_NAMES.index(name)
        if acc[idx] is None or acc[idx] != res:
            fail(f"{ctx}: previous_success_decoder = {name}, but that decoder {'rejects the payload' if acc[idx] is None else 'gives a different result'}", sig="name-not-producer")
        if remembered is not None and idx != remembered:
            stats["switch"] += 1
        remembered = idx
        stats["some"] += 1
        C.scribble(res)  # the caller modifies what it was given; later results must not be affected
        C.scribble(tres)
    return stats


# ---- histories from the pool -------------------------------------------------------------------------------------------

JUNK = {
    "junk/12345": bytes([1, 2, 3, 4, 5]),
    "junk/empty": b"",
    "junk/aidon-frame-11": GENUINE["aidon/frame/no_list_2"][0][:11],  # parsed by the Kamstrup frame grammar, normalisation fails
    "junk/kaifa-body-trunc": GENUINE["kaifa/body/no_list_2"][0][:40],
    "junk/kamstrup-unknown-obis": GENUINE["kamstrup/body/no_list_1_three_phase"][0].replace(bytes.fromhex("0101010700ff"), bytes.fromhex("0101630700ff")),
    "junk/ascii-garbage": b"1.8.0(123)xyz\r\n",
    "junk/kaifa-body-10-items": bytes([2, 10]) + b"".join(C.u32(i) for i in range(10)),
}
JUNK_EXTRA = {
    "junk/kaifa-empty-list": bytes([2, 0]),  # 2 octets: an invalid DlmsMessage, but a structure of 0 elements the Kaifa/Kamstrup body grammars parse
    "junk/kaifa-list1-bare": bytes([2, 1]) + C.u32(77),
    "junk/p1-huge-exponent": b"1-0:1.7.0(1e999*kW)\r\n",
    "junk/p1-float-overflow": b"1-0:1.8.0(1.8e305*kWh)\r\n",
    "junk/p1-nan": b"1-0:1.7.0(nan*kW)\r\n",
    "junk/p1-multi-value-only": b"1-0:99.97.0(2)(0-0:96.7.19)(101208152415W)(0000000240*s)\r\n",
}
SUB_POOL = [
    "aidon/frame/no_list_2", "aidon/body/no_list_3", "aidon/frame/se_list", "kaifa/frame/no_list_1", "kaifa/body/no_list_1", "kaifa/frame/no_list_3",
    "kaifa/body/se_list", "kaifa/body/no_list_2", "kamstrup/frame/no_list_1_three_phase", "kamstrup/body/no_list_2_three_phase",
    "kamstrup/body/no_list_1_single_phase_real_sample", "kamstrup/frame/se_list_real_sample", "p1/readout/c", "p1/readout/b",
    "gen/aidon/body", "gen/kaifa/frame14", "gen/kamstrup/body-ct-padded",
] + sorted(JUNK)
ALL = {n: GENUINE[n][0] for n in NAMES}
ALL.update(JUNK)
ALL.update(JUNK_EXTRA)
assert len(SUB_POOL) == 24


def meter_of(name):
    return name.split("/")[1] if name.startswith("gen/") else name.split("/")[0]


def classify(names, stats):
    meters = {meter_of(n) for n in names if not n.startswith("junk") and not n.startswith("mut")}
    junk_between = any(names[i].startswith(("junk", "mut")) and any(not x.startswith(("junk", "mut")) for x in names[:i]) and any(not x.startswith(("junk", "mut")) for x in names[i + 1 :]) for i in range(len(names)))
    cl = [f"meters:{len(meters)}"]
    if junk_between:
        cl.append("junk-between-genuine")
    if stats["switch"]:
        cl.append("decoder-switch")
    return len(meters) >= 2 or junk_between, cl


def enum_oracle(case) -> Info:
    names = list(case)
    stats = run_history([ALL[n] for n in names])
    nt, cl = classify(names, stats)
    return Info(nontrivial=nt, classes=tuple(cl + [f"len:{len(names)}"]), sample=names)


def _enum_size(tier):
    return 24 + 24**2 + 24**3


def enum_case(i, tier):
    k = 1
    while i >= 24**k:
        i -= 24**k
        k += 1
    out = []
    for _ in range(k):
        i, r = divmod(i, 24)
        out.append(SUB_POOL[r])
    return tuple(out)


@st.composite
def history_st(draw):
    n = draw(st.integers(1, 30))
    items = []
    for _ in range(n):
        kind = draw(st.sampled_from(["pool", "pool", "pool", "junk", "mut", "random", "repeat", "junk-run"]))
        if kind == "repeat" and items:
            items.append(items[-1])  # the byte-identical payload again
        elif kind == "junk-run" and len(items) < 25:
            # a long unbroken run of payloads nobody accepts (e.g. a noisy line): 40..300 of them
            run = draw(st.sampled_from([40, 61, 100, 300]))
            junk = draw(st.sampled_from(sorted(JUNK)))
            items.extend([(junk, JUNK[junk])] * run)
        elif kind == "pool" or kind in ("repeat", "junk-run"):
            nm = draw(st.sampled_from(NAMES))
            items.append((nm, ALL[nm]))
        elif kind == "junk":
            nm = draw(st.sampled_from(sorted(JUNK) + sorted(JUNK_EXTRA)))
            items.append((nm, ALL[nm]))
        elif kind == "mut":
            nm = draw(st.sampled_from(NAMES))
            items.append(("mut/" + nm, c15._mutate(ALL[nm], draw(st.lists(c15._op, min_size=1, max_size=3)))))
        else:
            items.append(("junk/random", draw(st.binary(max_size=40))))
    via = [draw(st.sampled_from([None, None, "dlms", "hdlc", "hdlc-badfcs", "hdlc-seg", "p1"])) for _ in range(min(len(items), 40))] + [None] * max(0, len(items) - 40)
    bystander = [ALL[nm] for nm in draw(st.lists(st.sampled_from(NAMES + sorted(JUNK)), min_size=1, max_size=4))] if draw(st.booleans()) else None
    return ([i[0] for i in items], [i[1] for i in items], via, bystander)


def history_oracle(case) -> Info:
    names, payloads, via = list(case[0]), [bytes(p) for p in case[1]], list(case[2])
    bystander = [bytes(b) for b in case[3]] if len(case) > 3 and case[3] else None
    stats = run_history(payloads, via, bystander)
    nt, cl = classify(names, stats)
    return Info(nontrivial=nt, classes=tuple(cl), sample=names[:8])


# ---- genuine messages decode with their own decoder and the C07-C09 / C11 values -----------------------------------------------


@st.composite
def genuine_st(draw):
    meter = draw(st.sampled_from(["aidon", "kaifa", "kamstrup", "p1"]))
    form = draw(st.sampled_from(["frame", "body"])) if meter != "p1" else "block"
    n_hist = draw(st.sampled_from([0, 0, 1, 2, 3]))
    msgs = []
    for _ in range(n_hist + 1):
        if meter == "aidon":
            msgs.append(("aidon", draw(C.aidon_list_st()), draw(st.none() | st.tuples(C.dt_spec_st(), st.booleans()))))
        elif meter == "kaifa":
            msgs.append(("kaifa", draw(C.kaifa_list_st())))
        elif meter == "kamstrup":
            msgs.append(("kamstrup", draw(C.kamstrup_list_st())))
        else:
            msgs.append(("p1", draw(c11.block_st())))
    return (meter, form, msgs)


def _materialise(meter, form, m):
    """Returns (payload, expected dict or None, expected decoder name)."""
    if meter == "aidon":
        body, exp = C.aidon_body([tuple(e) for e in m[1][1]])
        if form == "body":
            return body, exp, "Aidon_notification_body"
        apdu = m[2]
        return C.llc_apdu(body, None if apdu is None else tuple(apdu[0]), False if apdu is None else apdu[1]), exp, "Aidon_frame"
    if meter == "kaifa":
        layout, items, apdu_dt, tagged = m[1]
        items = [tuple(i) for i in items]
        body, exp = C.kaifa_body(layout, items)
        if form == "body":
            return body, exp, "Kaifa_notification_body"
        exp = dict(exp)
        if not any(k == "clock" for _n, k, _v in items):
            exp["meter_datetime"] = C.dt_expected(tuple(apdu_dt))
        return C.llc_apdu(body, None if apdu_dt is None else tuple(apdu_dt), tagged), exp, "Kaifa_frame"
    if meter == "kamstrup":
        _layout, list_ver, items, pads, apdu_dt, tagged = m[1]
        body, exp, _ct = C.kamstrup_body(list_ver, [tuple(i) for i in items], list(pads))
        if form == "body":
            return body, exp, "Kamstrup_notification_body"
        exp = dict(exp)
        exp["meter_datetime"] = C.dt_expected(tuple(apdu_dt))
        return C.llc_apdu(body, tuple(apdu_dt), tagged, invoke=0), exp, "Kamstrup_frame"
    sets, text = m[1][0], m[1][1]
    return text.encode("ascii"), ("p1", sets, text), "P1"


def genuine_oracle(case) -> Info:
    meter, form, msgs = case[0], case[1], case[2]
    ad = autodecoder.AutoDecoder()
    last = None
    for m in msgs:
        payload, exp, dname = _materialise(meter, form, m)
        res = guarded(ad.decode_message_payload, payload, what="AutoDecoder.decode_message_payload")
        name = ad.previous_success_decoder
        if res is None or name != dname:
            fail(f"genuine {meter} {form} (message {len(msgs)} of a same-meter history): decoded by {name} (result {'None' if res is None else 'dict'}), expected {dname}; payload {payload.hex()[:300]}", sig=f"wrong-decoder:{dname}")
        last = (res, exp, payload)
    res, exp, payload = last
    if meter == "p1":
        direct = dlde.decode_p1_readout_content(payload)
        if res != direct:
            fail("P1 block through AutoDecoder differs from decode_p1_readout_content", sig="values-p1")
    else:
        mm = C.dict_mismatch(res, exp)
        if mm:
            fail(f"genuine {meter} {form} through AutoDecoder: {mm}; payload {payload.hex()[:300]}", sig="values")
    return Info(nontrivial=len(msgs) > 1, classes=(f"{meter}:{form}", f"history:{len(msgs) - 1}"))


# ---- a genuine message as the FIRST thing a fresh process decodes ---------------------------------------------------------------------

_FRESH_PROGRAM = r"""
import json, sys, logging
logging.disable(logging.CRITICAL)
payload = bytes.fromhex(%r)
form = %r
from han import autodecoder
ad = autodecoder.AutoDecoder()
if form == "payload":
    res = ad.decode_message_payload(payload)
else:
    from han.common import DlmsMessage
    res = ad.decode_message(DlmsMessage(payload))
out = None if res is None else sorted([str(k), type(v).__name__, str(v)] for k, v in res.items())
print("FRESH-RESULT " + json.dumps([out, ad.previous_success_decoder]))
"""


def fresh_case(i, tier):
    return (NAMES[i], ["payload", "dlms"][(i + (0 if tier == "quick" else 1)) % 2]) if i < len(NAMES) else (NAMES[i - len(NAMES)], ["payload", "dlms"][(i - len(NAMES)) % 2])


def fresh_oracle(case) -> Info:
    from vlib.freshproc import fresh_eval

    name, form = case
    payload, own = GENUINE[name]
    got, err = fresh_eval(_FRESH_PROGRAM % (payload.hex(), form))
    if got is None:
        raise RuntimeError(f"fresh interpreter failed: {err}")
    want = INDIVIDUAL[DECODER_NAMES.index(own)](payload)
    want_l = sorted([str(k), type(v).__name__, str(v)] for k, v in want.items())
    if got[0] != want_l or got[1] != own:
        diff = [x for x in (got[0] or []) if x not in want_l][:3], [x for x in want_l if x not in (got[0] or [])][:3]
        fail(f"genuine message {name} as the first thing a fresh process decodes ({form}): decoder {got[1]} (own decoder {own}); fields only there {diff[0]}, only in the own decoder's result here {diff[1]}", sig="fresh-process")
    return Info(nontrivial=True, classes=(f"own:{own}", f"form:{form}"), sample={"message": name, "form": form})


def build() -> Check:
    return Check(
        pid="C12",
        level="exploration",
        rule=(
            "exhaustive: ALL histories of length <=3 over a 24-element sub-pool (17 genuine messages of every meter in frame and body form, P1 "
            "blocks, 7 junk payloads incl. ones a foreign grammar parses) = 14 424 histories. histories: Hypothesis operation lists of 1..30 "
            "payloads from the full pool (41 genuine messages), junk, 1..3-op mutants of genuine messages and random bytes, each step "
            "through decode_message_payload or decode_message(DlmsMessage / reader-produced HdlcFrame, valid or with a flipped FCS bit; payloads "
            "shorter than 5 octets make invalid DlmsMessages) with a twin AutoDecoder fed the bare "
            "payload, including byte-identical repeats and unbroken runs of 40..300 payloads nobody accepts; in half of the histories a second, unrelated AutoDecoder decodes other pool messages between the steps (instances must "
            "be independent). Reference model: the seven individual decoder functions are called directly (cached) - accepts = returns a dict; model "
            "state = index of the decoder that produced the latest non-None result; invariant after every step (None iff nobody accepts; "
            "result is an accepting decoder's result, the remembered one's when it accepts; previous_success_decoder names the producer and "
            "is unchanged by rejected payloads; message form == payload form). genuine: generated Aidon/Kaifa/Kamstrup/P1 messages (C07-C09, "
            "C11 generators) to a fresh AutoDecoder or after 1..3 same-meter same-form messages: decoded by that meter's decoder with the "
            "C07-C09 expected values. Non-trivial = history with >=2 different meters or a junk payload between two genuine ones "
            "(genuine clause: history length >= 1)."
            " Message form p1: the payload as the data block of a caller-built DataReadout given to decode_message (the model's P1 entry is then decode_p1_readout on an equal readout; a twin AutoDecoder gets an equal object)."
        ),
        assumptions=[
            "The model calls han's individual decoder functions; C12 is about the selection logic, the decoders' values are C07-C09/C11's subject (re-checked in the genuine clause with the harness's expected dictionaries).",
            "A decoder that raises any exception counts as not accepting.",
            "After every step the harness modifies the dictionary it was given (results must not be shared with later calls); the accept-cache stores its own copies.",
            "Histories are drawn as one list value (equivalent to a rule-based state machine with a single 'feed payload' rule; it shrinks and replays as one JSON value).",
        ],
        clauses=[
            EnumClause("exhaustive", size=_enum_size, case_at=enum_case, oracle=enum_oracle, doc="all histories of length <=3 over the 24-element sub-pool"),
            EnumClause("fresh-process", size=lambda tier: len(NAMES) if tier == "quick" else 2 * len(NAMES), case_at=fresh_case, oracle=fresh_oracle, doc="every genuine pool message decoded by a fresh AutoDecoder as the first operation of a fresh interpreter (payload and DlmsMessage entry): own decoder, same fields as the own decoder gives in the warmed-up process", exhaustive=False),
            HypClause("histories", history_st, history_oracle, quick=1500, thorough=30000),
            HypClause("genuine", genuine_st, genuine_oracle, quick=3000, thorough=60000),
        ],
    )
