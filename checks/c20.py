"""C20 - OBIS codes parse into their value groups and format back losslessly."""
from __future__ import annotations

import itertools
import re

from hypothesis import strategies as st

from han import obis as obis_mod
from han.obis import Obis, to_obis_tupple
from vlib.runner import Check, EnumClause, HypClause, Info, fail, guarded

BOUNDARY = (0, 1, 9, 10, 99, 100, 255)


def fmt_reduced(g) -> str:
    """Harness formatter (written from the syntax [A-][B:]C.D[.E][*F], not from the code)."""
    a, b, c, d, e, f = g
    s = ""
    if a is not None:
        s += f"{a}-"
    if b is not None:
        s += f"{b}:"
    s += f"{c}.{d}"
    if e is not None:
        s += f".{e}"
    if f is not None:
        s += f"*{f}"
    return s


def fmt_six(g) -> str:
    return ".".join(str(x) for x in g)


def roundtrippable(g) -> bool:
    a, b, _c, _d, e, f = g
    return all(x is None or x != 0 for x in (a, b, e, f))


def check_groups(case) -> Info:
    """case = (groups tuple, pad) - parse, equality, hash, C.D.E string, round trip."""
    g, pad = case
    g = tuple(g)
    present = [x is not None for x in g]
    texts = [fmt_reduced(g)]
    if all(present):
        texts.append(fmt_six(g))
    if pad:
        # leading zeros are still 'groups 0..255 written in digits' as long as <= 3 digits
        def z(x):
            return None if x is None else str(x).zfill(pad)

        a, b, c, d, e, f = (z(x) for x in g)
        s = ""
        if a is not None:
            s += f"{a}-"
        if b is not None:
            s += f"{b}:"
        s += f"{c}.{d}"
        if e is not None:
            s += f".{e}"
        if f is not None:
            s += f"*{f}"
        texts.append(s)
    for s in texts:
        got = guarded(to_obis_tupple, s, what=f"to_obis_tupple({s!r})")
        if tuple(got) != g:
            fail(f"to_obis_tupple({s!r}) = {got!r}, expected {g!r}", sig="parse")
        o = guarded(Obis.from_string, s, what=f"Obis.from_string({s!r})")
        if tuple(o.as_tupple()) != g or (o.a, o.b, o.c, o.d, o.e, o.f) != g:
            fail(f"Obis.from_string({s!r}) groups {(o.a, o.b, o.c, o.d, o.e, o.f)!r} != {g!r}", sig="parse-obj")
    o = Obis(g)
    o2 = Obis(tuple(g))
    if not (o == o2) or hash(o) != hash(o2):
        fail(f"equal groups {g!r} not equal / hash differs", sig="eq")
    if not guarded(o.__eq__, texts[0], what="Obis == str"):
        fail(f"Obis({g!r}) != its own string {texts[0]!r}", sig="eq-str")
    cde = guarded(o.to_group_cdr_str)
    if g[4] is not None:
        if cde != f"{g[2]}.{g[3]}.{g[4]}":
            fail(f"to_group_cdr_str() = {cde!r} for {g!r}", sig="cde")
    elif not cde.startswith(f"{g[2]}.{g[3]}"):
        fail(f"to_group_cdr_str() = {cde!r} for {g!r}", sig="cde")
    if roundtrippable(g):
        for how, text in (("to_reduced_str", guarded(o.to_reduced_str)), ("str", guarded(str, o, what="str(Obis)"))):
            try:
                back = to_obis_tupple(text)
            except ValueError:
                fail(f"{how}() of {g!r} = {text!r} does not parse", sig=f"roundtrip-{how}")
            if tuple(back) != g:
                fail(f"{how}() of {g!r} = {text!r} parses to {back!r}", sig=f"roundtrip-{how}")
    else:
        guarded(o.to_reduced_str)
        guarded(str, o, what="str(Obis)")
    nontrivial = (g[0] is not None and g[1] is not None) or g[5] is not None or any(x in (0, 255) for x in g if x is not None)
    classes = ["pattern:" + "".join("ABEF"[i] for i, k in enumerate((0, 1, 4, 5)) if g[k] is not None)]
    if roundtrippable(g):
        classes.append("roundtrip-checked")
    return Info(nontrivial=nontrivial, classes=tuple(classes))


# ---- exhaustive boundary grid ----------------------------------------------------

_PATTERNS = list(itertools.product((False, True), repeat=4))  # A, B, E, F present?


def _grid():
    out = []
    for pa, pb, pe, pf in _PATTERNS:
        doms = [
            BOUNDARY if pa else (None,),
            BOUNDARY if pb else (None,),
            BOUNDARY,
            BOUNDARY,
            BOUNDARY if pe else (None,),
            BOUNDARY if pf else (None,),
        ]
        out.append(doms)
    return out


_GRID = _grid()
_GRID_SIZES = [len(d[0]) * len(d[1]) * len(d[2]) * len(d[3]) * len(d[4]) * len(d[5]) for d in _GRID]
_GRID_TOTAL = sum(_GRID_SIZES)


def grid_case(i: int, tier: str):
    for doms, n in zip(_GRID, _GRID_SIZES):
        if i < n:
            g = []
            for d in reversed(doms):
                i, r = divmod(i, len(d))
                g.append(d[r])
            return (tuple(reversed(g)), 0)
        i -= n
    raise IndexError


# ---- random groups ----------------------------------------------------------------

_val = st.one_of(st.sampled_from(BOUNDARY), st.integers(0, 255))
_opt = st.one_of(st.none(), _val)
groups_st = st.tuples(_opt, _opt, _val, _val, _opt, _opt)


# ---- equality between two different objects --------------------------------------


def check_pair(case) -> Info:
    g1, g2 = tuple(case[0]), tuple(case[1])
    o1, o2 = Obis(g1), Obis(g2)
    eq = guarded(o1.__eq__, o2, what="Obis == Obis")
    if eq != (g1 == g2):
        fail(f"Obis{g1!r} == Obis{g2!r} is {eq}", sig="eq-pair")
    if (o1 != o2) != (g1 != g2):
        fail(f"Obis{g1!r} != Obis{g2!r} inconsistent", sig="ne-pair")
    if g1 == g2 and hash(o1) != hash(o2):
        fail(f"equal objects hash differently {g1!r}", sig="hash")
    # comparison with a string parses the string first
    s2 = fmt_reduced(g2)
    eqs = guarded(o1.__eq__, s2, what="Obis == str")
    if eqs != (g1 == g2):
        fail(f"Obis{g1!r} == {s2!r} is {eqs}", sig="eq-str-pair")
    if all(x is not None for x in g2):
        s6 = fmt_six(g2)
        if guarded(o1.__eq__, s6, what="Obis == str") != (g1 == g2):
            fail(f"Obis{g1!r} == {s6!r} wrong", sig="eq-str-pair")
    # a set / dict keyed by Obis behaves like one keyed by the tuples
    if len({o1, o2}) != len({g1, g2}):
        fail(f"set of Obis{g1!r}, Obis{g2!r} has wrong size", sig="hash-set")
    diff = sum(1 for x, y in zip(g1, g2) if x != y)
    return Info(nontrivial=diff <= 1, classes=(f"diff:{min(diff, 3)}",))


def _carry_pair(g, i, lows, delta):
    a, b = list(g), list(g)
    hi = g[i] if g[i] is not None else 7
    hi2 = hi + delta
    if not 0 <= hi2 <= 255:
        hi2 = hi - delta
    lo_a, lo_b = lows
    a[i], a[i + 1] = hi, lo_a
    b[i], b[i + 1] = hi2, lo_b
    for t in (a, b):  # C and D are mandatory
        for k in (2, 3):
            if t[k] is None:
                t[k] = 0
    return (tuple(a), tuple(b))


def _pair():
    return st.one_of(
        st.tuples(groups_st, groups_st),
        groups_st.map(lambda g: (g, g)),
        groups_st.flatmap(
            lambda g: st.tuples(st.just(g), st.builds(lambda i, v: tuple(v if (k == i and (v is not None or k not in (2, 3))) else x for k, x in enumerate(g)), st.integers(0, 5), _opt))
        ),
        # two ADJACENT positions related by a carry: (.., g, None) vs (.., g+1, 0) and (.., g, 255) vs (.., g+1, None) etc.
        st.builds(_carry_pair, groups_st, st.integers(0, 4), st.sampled_from([(None, 0), (255, None), (255, 0), (None, 1), (0, None)]), st.sampled_from([1, -1])),
    )


# ---- object histories: equality / hash over objects obtained by any public route, interleaved with hashing ----------------------


def check_history(ops) -> Info:
    """ops: list of ('new', groups) | ('parse', groups) | ('cde', i) | ('hash', i) | ('copy', i) | ('str', i).
    Model: every object is its group tuple. Invariant after every step, over all objects created so far:
    == iff groups equal; equal => same hash; an object's hash never changes."""
    import copy

    objs = []  # (Obis, expected groups, first observed hash or None)
    derived = hashed_before_derive = False
    for step, op in enumerate(ops):
        kind = op[0]
        if kind == "new":
            objs.append([Obis(tuple(op[1])), tuple(op[1]), None])
        elif kind == "parse":
            g = tuple(op[1])
            objs.append([guarded(Obis.from_string, fmt_reduced(g), what="Obis.from_string"), g, None])
        elif objs:
            i = op[1] % len(objs)
            o, g, h = objs[i]
            if kind == "cde":
                d = guarded(o.filter_group_cde, what="filter_group_cde")
                objs.append([d, (None, None, g[2], g[3], g[4], None), None])
                derived = True
                hashed_before_derive |= h is not None
            elif kind == "copy":
                objs.append([copy.copy(o), g, None])
            elif kind == "hash":
                hv = guarded(hash, o, what="hash(Obis)")
                if h is not None and hv != h:
                    fail(f"step {step}: hash of Obis{g!r} changed from {h} to {hv}", sig="hash-unstable")
                objs[i][2] = hv
            elif kind == "str":
                guarded(str, o, what="str(Obis)")
                guarded(o.to_reduced_str)
        # invariant over the newest object against all others (pairs among older ones were checked before)
        if objs:
            o, g, _ = objs[-1]
            if tuple(o.as_tupple()) != g:
                fail(f"step {step} ({kind}): object has groups {o.as_tupple()!r}, expected {g!r}", sig="history-groups")
            for o2, g2, _h2 in objs:
                eq = guarded(o.__eq__, o2, what="Obis == Obis")
                if eq != (g == g2):
                    fail(f"step {step} ({kind}): Obis{g!r} == Obis{g2!r} is {eq}", sig="history-eq")
                if g == g2 and guarded(hash, o, what="hash(Obis)") != guarded(hash, o2, what="hash(Obis)"):
                    fail(f"step {step} ({kind}): equal objects Obis{g!r} (route: {kind}) hash differently; ops so far {ops[: step + 1]!r}", sig="history-hash")
            if len({x[0] for x in objs}) != len({x[1] for x in objs}):
                fail(f"step {step}: a set of the objects has {len({x[0] for x in objs})} members, their group tuples {len({x[1] for x in objs})}", sig="history-set")
    return Info(nontrivial=derived and hashed_before_derive, classes=("derived-after-hash" if derived and hashed_before_derive else ("derived" if derived else "no-derivation"),))


_hist_op = st.one_of(
    st.tuples(st.just("new"), groups_st),
    st.tuples(st.just("parse"), groups_st),
    st.tuples(st.just("cde"), st.integers(0, 7)),
    st.tuples(st.just("cde"), st.integers(0, 7)),
    st.tuples(st.just("hash"), st.integers(0, 7)),
    st.tuples(st.just("hash"), st.integers(0, 7)),
    st.tuples(st.just("copy"), st.integers(0, 7)),
    st.tuples(st.just("str"), st.integers(0, 7)),
)
history_st = st.lists(_hist_op, min_size=1, max_size=12)


# ---- malformed strings ------------------------------------------------------------

_DDD = re.compile(r"\d\.\d")
_tok = st.one_of(
    st.integers(0, 999).map(str),
    st.sampled_from([".", "-", ":", "*", ",", " ", "\t", "..", ".-", "-.", "x", "A", "kWh", "(", ")", "/", ""]),
)


def _repair(tokens_and_filler):
    tokens, filler = tokens_and_filler
    s = "".join(tokens)
    # construct, do not reject: break every digit-dot-digit by inserting a non-digit after the dot
    while True:
        m = _DDD.search(s)
        if not m:
            return s
        s = s[: m.start() + 2] + filler + s[m.start() + 2 :]


@st.composite
def decorated_st(draw):
    """A well-formed code with blanks / signs / underscores next to its separators so that no digit-dot-digit remains."""
    g = draw(groups_st)
    text = fmt_six(tuple(x if x is not None else draw(_val) for x in g)) if draw(st.integers(0, 4)) == 4 else fmt_reduced(g)
    out = []
    for ch in text:
        if ch == ".":
            pre = draw(st.sampled_from(["", " ", "\t", "_"]))
            post = draw(st.sampled_from([" ", "+", "_", "\t", " +", "-"]) if not pre else st.sampled_from(["", " ", "+", "_"]))
            out.append(pre + "." + post)
        elif ch in "-:*" and draw(st.booleans()):
            out.append(draw(st.sampled_from([" ", ""])) + ch + draw(st.sampled_from([" ", "+", ""])))
        else:
            out.append(ch)
    return _repair((out, " "))


malformed_st = st.tuples(st.lists(_tok, min_size=0, max_size=8), st.sampled_from([" ", "x", "-", ":", "*", ".", ","])).map(_repair)


def check_malformed(s: str) -> Info:
    assert not _DDD.search(s)
    for fn, name in ((to_obis_tupple, "to_obis_tupple"), (Obis.from_string, "Obis.from_string")):
        try:
            got = fn(s)
        except ValueError:
            continue
        except Exception as exc:  # noqa: BLE001
            fail(f"{name}({s!r}) raised {type(exc).__name__} instead of ValueError", sig="malformed-exc")
        fail(f"{name}({s!r}) returned {got!r} instead of raising ValueError", sig="malformed-accepted")
    has_dot = "." in s
    has_digit = any(ch.isdigit() for ch in s)
    return Info(nontrivial=has_dot and has_digit, classes=("dot" if has_dot else "nodot", "digit" if has_digit else "nodigit"))


def build() -> Check:
    return Check(
        pid="C20",
        level="exploration",
        rule=(
            "groups: all 16 presence patterns of A,B,E,F x every group in {0,1,9,10,99,100,255} enumerated completely "
            "(200 704 tuples), plus Hypothesis-drawn tuples over 0..255 with optional zero padding; formatted by the "
            "harness in reduced and six-part syntax. Non-trivial = A and B both present, or F present, or a group equal "
            "to 0 or 255. object-histories: operation lists (create from groups, parse, filter_group_cde, copy, hash, str) over a pool of objects with "
            "the invariant '== iff groups equal, equal => equal hash, hash stable' after every step; non-trivial = an object derived from "
            "one that had already been hashed. pairs: two tuples differing in <=1 group count as non-trivial. malformed: token strings with "
            "every digit-dot-digit broken by construction; non-trivial = contains a dot and a digit. Distinct = distinct "
            "case hash."
        ),
        assumptions=[
            "Round trip asserted only when every optional group is None or non-zero (as the property states).",
            "to_group_cdr_str compared with C.D.E only when E is present; with E absent only the C.D prefix is asserted.",
            "Leading-zero variants use at most 3 digits per group (the syntax the regex documents).",
        ],
        clauses=[
            EnumClause("grid", size=lambda tier: _GRID_TOTAL, case_at=grid_case, oracle=check_groups, doc="exhaustive boundary grid, all presence patterns"),
            HypClause("groups", st.tuples(groups_st, st.sampled_from([0, 0, 2, 3])), check_groups, quick=20000, thorough=300000),
            HypClause("pairs", _pair, check_pair, quick=20000, thorough=200000),
            HypClause("malformed", st.one_of(malformed_st, decorated_st()), check_malformed, quick=20000, thorough=300000),
            HypClause("object-histories", history_st, lambda ops: check_history([tuple(o) for o in ops]), quick=8000, thorough=150000, doc="equality/hash invariants over objects created, parsed, derived (filter_group_cde), copied and hashed in any order"),
        ],
    )
