"""C18 - Reconnect pacing follows capped exponential back-off and the loss breaker."""
from __future__ import annotations

import itertools
import logging
import warnings

from hypothesis import strategies as st

from han import meter_connection as mc
from vlib import vtloop
from vlib.runner import Check, EnumClause, HypClause, Info, fail, guarded

logging.disable(logging.CRITICAL)
warnings.simplefilter("ignore", DeprecationWarning)

# ---- (1) the strategy object ------------------------------------------------------------------------------------------------------

MAX_DELAYS = [1, 2, 3, 59, 60, 61, 3600]


def model_delay(n, max_delay):
    return 0 if n == 0 else min(2 ** (n - 1), max_delay)


def strategy_run(ops, max_delay_of):
    """ops: iterable of 'f' | 'r' | ('m', value). Checks current_delay_sec after every call."""
    obj = guarded(mc.ExponentialBackOff, what="ExponentialBackOff()")
    other = mc.ExponentialBackOff()  # a second instance used in between: instances must be independent
    md = max_delay_of
    if md is not None:
        obj.max_delay = md
    else:
        md = mc.BackOffStrategy.DEFAULT_MAX_DELAY_SEC
        if md != 60:
            fail(f"DEFAULT_MAX_DELAY_SEC = {md}, documented default is 60", sig="default-max")
    n = 0
    got = guarded(lambda: obj.current_delay_sec)
    if got != 0:
        fail(f"fresh ExponentialBackOff reports {got}", sig="strategy")
    peak = 0
    for i, op in enumerate(ops):
        other.failure() if i % 3 else other.reset()
        if i % 5 == 0:
            other.max_delay = 7
        if op == "f":
            guarded(obj.failure)
            n += 1
        elif op == "r":
            guarded(obj.reset)
            n = 0
        else:
            md = op[1]
            obj.max_delay = md
        got = guarded(lambda: obj.current_delay_sec)
        want = model_delay(n, md)
        if got != want:
            fail(f"after {i + 1} calls ({''.join(o if isinstance(o, str) else 'm' for o in ops[: i + 1])}) with max_delay {md}: current_delay_sec = {got}, expected min(2^({n}-1), {md}) = {want}", sig="strategy")
        peak = max(peak, n)
    return peak


def strat_enum_case(i, tier):
    """index -> (max_delay, bit string of length 1..14)"""
    per = 2**15 - 2
    md = MAX_DELAYS[i // per]
    j = i % per
    length = 1
    while j >= 2**length:
        j -= 2**length
        length += 1
    ops = "".join("f" if (j >> b) & 1 else "r" for b in range(length))
    return (md, ops)


def strat_enum_oracle(case) -> Info:
    md, ops = case
    peak = strategy_run(list(ops), md)
    return Info(nontrivial=peak >= 3 or "r" in ops[1:], classes=(f"max:{md}",))


def strat_batch(lo, hi, tier):
    n = nt = 0
    hashes = 0
    for i in range(lo, hi):
        md, ops = strat_enum_case(i, tier)
        try:
            peak = strategy_run(list(ops), md)
        except Exception as v:
            if hasattr(v, "detail"):
                v.case = (md, ops)
            raise
        n += 1
        if peak >= 3 or "r" in ops[1:]:
            nt += 1
    return n, nt, {"strategy-sequences": n}, [{"max_delay": strat_enum_case(lo, tier)[0], "ops": strat_enum_case(lo, tier)[1]}] if hi > lo else []


_op_st = st.one_of(st.just("f"), st.just("f"), st.just("f"), st.just("r"), st.tuples(st.just("m"), st.integers(1, 3600) | st.sampled_from(MAX_DELAYS)))
strat_hyp_st = st.tuples(st.none() | st.integers(1, 3600) | st.sampled_from(MAX_DELAYS), st.lists(_op_st, min_size=1, max_size=200))


def strat_streak_oracle(case) -> Info:
    """case = (max_delay | None, streak length): a very long run of failure() calls, then reset, then a few more."""
    md, n = case
    peak = strategy_run(["f"] * n + ["r", "f", "f", "f"], md)
    return Info(nontrivial=True, classes=(f"streak:{n}",), sample={"max_delay": md, "failures": n})


STREAKS = [(None, 1100), (60, 1030), (3600, 2000), (1, 1500), (None, 5000)]


def strat_hyp_oracle(case) -> Info:
    md, ops = case[0], [tuple(o) if isinstance(o, (list, tuple)) else o for o in case[1]]
    peak = strategy_run(ops, md)
    return Info(nontrivial=peak >= 3, classes=("default-max" if md is None else "custom-max", "max-changed-mid-run" if any(not isinstance(o, str) for o in ops) else "max-fixed"))


# ---- (2) the manager on the virtual loop ------------------------------------------------------------------------------------------------

CONFIGS = [(5, 5, 60), (2, 9, 3), (10, 1, 4), (0.5, 3, 2)]  # (loss threshold s, breaker sleep s, max_delay s)
SLACK = 1e-6


def pacing_judge(out, script, cfg):
    threshold, sleep, max_delay = cfg
    w = out["world"]
    ctx = f"config threshold={threshold} sleep={sleep} max_delay={max_delay}; script {script}; trace: " + "; ".join(f"{t:g}s:{k}{'' if a is None else a}" for t, _i, k, a in w.events[:40])
    consecutive = 0
    last_fail_t = None
    loss_times = []
    last_loss_t = None
    facts = {"max_consecutive": 0, "double_loss": 0}
    pending_after = None  # ('fail', t, n) | ('loss', t, double)
    for t, _it, kind, arg in w.events:
        if kind == "attempt_start":
            if pending_after is not None:
                what = pending_after[0]
                gap = t - pending_after[1]
                if what == "fail":
                    n = pending_after[2]
                    lo = model_delay(n, max_delay)
                    hi = max(lo, sleep)
                    if gap < lo - SLACK:
                        fail(f"attempt #{arg} started {gap:g}s after consecutive failure no. {n}; back-off requires >= min(2^({n}-1), {max_delay}) = {lo}s; {ctx}", sig="too-early-after-failure")
                    if gap > hi + SLACK:
                        fail(f"attempt #{arg} started {gap:g}s after consecutive failure no. {n}; must be <= max({lo}, breaker sleep {sleep}) = {hi}s; {ctx}", sig="too-late-after-failure")
                else:
                    if pending_after[2] and gap < sleep - SLACK:
                        fail(f"attempt #{arg} started {gap:g}s after the second of two losses within {threshold}s; breaker requires >= {sleep}s; {ctx}", sig="breaker-too-early")
            pending_after = None
        elif kind == "attempt_fail":
            consecutive += 1
            facts["max_consecutive"] = max(facts["max_consecutive"], consecutive)
            pending_after = ("fail", t, consecutive)
        elif kind == "attempt_ok":
            consecutive = 0
        elif kind == "transport_lost":
            double = last_loss_t is not None and (t - last_loss_t) < threshold - 1e-9
            if out["shim"] == "none":
                double = double  # wall clock not virtualised: both clocks agree that the gap is below the threshold
            if double:
                facts["double_loss"] += 1
            last_loss_t = t
            pending_after = ("loss", t, double)
    return facts


def run_pacing(script, cfg, epoch=None, tz=None):
    threshold, sleep, max_delay = cfg

    def configure(mgr):
        mgr.connection_lost_back_off_threshold = threshold
        mgr.connection_lost_back_off_sleep_sec = sleep
        mgr.back_off_connect_error.max_delay = max_delay

    need = sum(s[1] for s in script) + sum((s[2] or 0) for s in script) + len(script) * (max(sleep, max_delay) + 1) + 50
    out = vtloop.run_scenario(script, horizon=need, configure=configure, sample_tasks=False, epoch=epoch, tz=tz)
    if out.get("loop_exc") is not None:
        fail(f"connect_loop() raised {out['loop_exc']!r}", sig="loop-raised")
    if out.get("livelock"):
        fail(f"the event loop spun without the virtual clock advancing (busy loop in the manager); script {script}", sig="busy-loop")
    if out["shim"] == "none":
        # fallback: the wall clock is real; only scenarios whose loss gaps are far below the threshold are judged for the breaker
        pass
    return out


STEPS = [("fail", 0.0, None), ("ok", 0.0, 0.3), ("ok", 0.0, 7.0), ("ok", 0.0, 30.0)]
FAIL_KINDS = ["fail", "fail", "fail:TimeoutError", "fail:OSError", "fail:ValueError", "fail:RuntimeError", "fail:EOFError", "fail:KeyError", "fail:Exception"]


def pacing_enum_size(tier):
    maxlen = 6 if tier == "quick" else 7
    return sum(len(STEPS) ** k for k in range(1, maxlen + 1)) * len(CONFIGS)


def pacing_enum_case(i, tier):
    cfg = CONFIGS[i % len(CONFIGS)]
    i //= len(CONFIGS)
    k = 1
    while i >= len(STEPS) ** k:
        i -= len(STEPS) ** k
        k += 1
    seq = []
    for _ in range(k):
        i, r = divmod(i, len(STEPS))
        seq.append(STEPS[r])
    return (seq, cfg)


def pacing_oracle(case) -> Info:
    script, cfg = [tuple(s) for s in case[0]], tuple(case[1])
    out = run_pacing(script, cfg)
    facts = pacing_judge(out, script, cfg)
    nt = facts["max_consecutive"] >= 3 or facts["double_loss"] >= 1
    classes = [f"consecutive-failures:{min(4, facts['max_consecutive'])}", "double-loss" if facts["double_loss"] else "no-double-loss", f"shim:{out['shim']}"]
    return Info(nontrivial=nt, classes=tuple(classes), sample={"script": [list(s) for s in script], "cfg": list(cfg)})


# ---- the wall clock crosses a daylight-saving change of the process's time zone between two losses ------------------------------------
import datetime as _dt  # noqa: E402

DST_ZONES = [  # POSIX TZ rules (no tzdata needed) and their 2021 change dates
    ("CET-1CEST,M3.5.0,M10.5.0/3", [(2021, 3, 28), (2021, 10, 31)]),
    ("EST5EDT,M3.2.0,M11.1.0", [(2021, 3, 14), (2021, 11, 7)]),
    ("<+1030>-10:30<+11>-11,M10.1.0,M4.1.0", [(2021, 10, 3), (2021, 4, 4)]),  # Lord Howe: half-hour daylight saving
]
DST_SCRIPTS = [
    ([("ok", 0.0, 3.0), ("ok", 0.0, 3.0), ("ok", 0.0, 30.0)], 4.5),  # losses at 3 s and 6 s: the clock boundary falls between them
    ([("ok", 0.0, 0.3), ("fail", 0.0, None), ("ok", 0.0, 0.3), ("ok", 0.0, 30.0)], 1.0),  # losses at 0.3 s and 1.6 s (1 s back-off between)
]
_DST_GRID = [(zi, di, dd, h, m, si) for zi in range(3) for di in range(2) for dd in (-1, 0) for h in range(24) for m in (0, 30) for si in range(len(DST_SCRIPTS))]


def dst_case(i, tier):
    return _DST_GRID[i]


def dst_oracle(case) -> Info:
    zi, di, dd, h, m, si = case
    tz, dates = DST_ZONES[zi]
    script, boundary = DST_SCRIPTS[si]
    # the (naive UTC) wall clock reads h:m:00 exactly `boundary` seconds into the run; every hour and half hour of the change date and the day before
    epoch = _dt.datetime(*dates[di], h, m, 0) + _dt.timedelta(days=dd) - _dt.timedelta(seconds=boundary)
    cfg = (5, 9, 3)
    out = run_pacing([tuple(s) for s in script], cfg, epoch=epoch, tz=tz)
    facts = pacing_judge(out, script, cfg)
    if not facts["double_loss"]:
        fail(f"harness: script {script} produced no double loss", sig="harness")
    return Info(nontrivial=True, classes=(f"tz:{zi}", f"script:{si}", "change-date" if dd == 0 else "day-before"), sample={"tz": tz, "epoch": epoch.isoformat(), "script": [list(s) for s in script]})


_pstep = st.one_of(
    st.tuples(st.sampled_from(FAIL_KINDS), st.sampled_from([0.0, 0.0, 0.5, 3.0]), st.none()),
    st.tuples(st.sampled_from(FAIL_KINDS), st.sampled_from([0.0, 0.0, 0.5, 3.0]), st.none()),
    st.tuples(st.just("ok"), st.sampled_from([0.0, 0.5, 3.0]), st.sampled_from([0.0, 0.3, 2.0, 4.9, 5.0, 5.1, 7.0, 30.0]) | st.floats(0.0, 40.0).map(lambda x: round(x, 3))),
)
pacing_hyp_st = st.tuples(
    st.lists(_pstep, min_size=1, max_size=12),
    st.tuples(st.sampled_from([0.5, 2, 5, 10]) | st.integers(1, 20), st.sampled_from([1, 3, 5, 9]) | st.integers(1, 30), st.sampled_from([1, 2, 3, 4, 60]) | st.integers(1, 100)),
)


def build() -> Check:
    per = 2**15 - 2
    return Check(
        pid="C18",
        level="fault_enumeration",
        rule=(
            "strategy: ALL failure()/reset() sequences of length 1..14 (32 766) x max_delay in {1,2,3,59,60,61,3600}, and Hypothesis sequences up "
            "to length 200 (plus streaks of 1030..5000 consecutive failures) with max_delay 1..3600 or the default, also changed mid-run; model: n = failures since the last reset, "
            "current_delay_sec == 0 if n == 0 else min(2^(n-1), max_delay), checked after every call, while a second strategy instance is "
            "exercised in between (instances must be independent). pacing: ConnectionManager on the "
            "virtual-time loop with the wall clock replaced by the virtual clock: ALL attempt-outcome/loss scripts of length <=6 (quick) / "
            "<=7 (thorough) over {fail, ok lost after 0.3 s, ok lost after 7 s, ok lost after 30 s} x 4 configurations of (loss threshold, "
            "breaker sleep, max_delay), and Hypothesis scripts up to length 12 with latencies, arbitrary lifetimes (incl. threshold "
            "boundaries 4.9/5.0/5.1) and drawn configurations. Oracle on the recorded virtual timestamps: after the n-th consecutive "
            "failure at t_f the next attempt starts at t_a with min(2^(n-1), max) <= t_a - t_f <= max(that, breaker sleep) + 1e-6; a "
            "success resets n; after the second of two losses less than the threshold apart, t_a - t_loss >= sleep. Non-trivial = >=3 "
            "consecutive failures or a double loss (strategy: >=3 failures in a row or a reset after a failure)."
            ' pacing-dst: scripts with two losses 3 s / 1.3 s apart, the (naive UTC) wall clock reading every full and half hour of a daylight-saving change date and the day before exactly between the two losses, process time zone set to CET/CEST, EST/EDT or Lord Howe by POSIX TZ rule (1152 cases).'
        ),
        assumptions=[
            "Timing is virtual: the harness owns the event loop clock and substitutes han.meter_connection.datetime so that utcnow() follows it (module or class form); if that name disappears the double-loss rule is only judged where virtual and wall time agree.",
            "No upper bound is asserted for the attempt that follows a connection loss (the property states none).",
            "Scheduling slack is 1e-6 s of virtual time.",
        ],
        clauses=[
            EnumClause("strategy-all", size=lambda tier: per * len(MAX_DELAYS), case_at=strat_enum_case, oracle=strat_enum_oracle, batch=strat_batch, doc="every failure/reset sequence up to length 14 x 7 max_delay values"),
            HypClause("strategy-long", strat_hyp_st, strat_hyp_oracle, quick=3000, thorough=60000),
            EnumClause("strategy-streaks", size=lambda tier: len(STREAKS), case_at=lambda i, tier: STREAKS[i], oracle=strat_streak_oracle, doc="1030..5000 consecutive failure() calls (beyond 2^1023)", exhaustive=False),
            EnumClause("pacing-all", size=pacing_enum_size, case_at=pacing_enum_case, oracle=pacing_oracle, doc="every script up to the tier's length x 4 configurations"),
            HypClause("pacing", pacing_hyp_st, pacing_oracle, quick=2500, thorough=60000),
            EnumClause("pacing-dst", size=lambda tier: len(_DST_GRID), case_at=dst_case, oracle=dst_oracle, doc="two losses 3 s / 1.3 s apart while the wall clock passes every full and half hour of a daylight-saving change date (and the day before) in 3 process time zones given as POSIX TZ rules"),
        ],
    )
