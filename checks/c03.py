"""C03 - FCS-16 implementation equals the RFC 1662 definition for every input."""
from __future__ import annotations

import os
import random

from hypothesis import strategies as st

from han.fastframecheck import FastFrameCheckSequence16 as FCS
from vlib.ref_fcs import fcs16, fcs16_octets, fcs_register, fcs_step
from vlib.runner import Check, EnumClause, HypClause, Info, Violation, fail, guarded

# --- prefix table: for every register value r, a two-octet message whose register is r -------------
# (b0,b1) -> register is a bijection on 2^16 values (the CRC of a 16-bit message is an affine bijection);
# built with the reference, and verified to be onto when first used.
_PREFIX = None


def prefix_table():
    global _PREFIX
    if _PREFIX is None:
        tab = [None] * 65536
        for b0 in range(256):
            r0 = fcs_step(0xFFFF, b0)
            for b1 in range(256):
                tab[fcs_step(r0, b1)] = (b0, b1)
        assert all(t is not None for t in tab), "two-octet prefixes do not reach every register"
        _PREFIX = tab
    return _PREFIX


def _viol(detail, case, sig):
    v = Violation(detail, sig)
    v.case = case
    return v


def step_oracle(case) -> Info:
    """case = (register r, octet x): replayable single step."""
    r, x = case
    b0, b1 = prefix_table()[r]
    obj = FCS()
    obj.update(b0)
    got_r = obj.update(b1)
    if got_r != r or obj.checksum != (r ^ 0xFFFF):
        fail(f"after octets {b0:02x} {b1:02x}: update() returned {got_r:#06x}, checksum {obj.checksum:#06x}; reference register {r:#06x}", sig="step")
    got = obj.update(x)
    want = fcs_step(r, x)
    if got != want or obj.checksum != (want ^ 0xFFFF):
        fail(f"register {r:#06x} + octet {x:#04x}: update() returned {got:#06x} / checksum {obj.checksum:#06x}, reference register {want:#06x}", sig="step")
    return Info(nontrivial=True)


def step_batch(lo, hi, tier):
    tab = prefix_table()
    for r in range(lo, hi):
        b0, b1 = tab[r]
        for x in range(256):
            obj = FCS()
            obj.update(b0)
            r1 = obj.update(b1)
            got = obj.update(x)
            want = fcs_step(r, x)
            if r1 != r or got != want or obj.checksum != (want ^ 0xFFFF):
                try:
                    step_oracle((r, x))
                except Violation as v:
                    v.case = (r, x)
                    raise
                raise _viol(f"register {r:#06x} octet {x:#04x} mismatch", (r, x), "step")
    n = (hi - lo) * 256
    samples = [{"register": hex(lo), "octet": "0x00..0xff", "prefix_octets": list(tab[lo])}] if hi > lo else []
    return n, n, {"step-pairs": n}, samples


def good_oracle(case) -> Info:
    """case = (register r, trailer lo, trailer hi): is_good after prefix+trailer iff trailer == ~r low octet first."""
    r, t0, t1 = case
    b0, b1 = prefix_table()[r]
    obj = FCS()
    for o in (b0, b1, t0, t1):
        obj.update(o)
    want = (t0 | (t1 << 8)) == (r ^ 0xFFFF)
    got = guarded(lambda: obj.is_good)
    if got is not want and got != want:
        fail(f"message {b0:02x}{b1:02x}+trailer {t0:02x}{t1:02x}: is_good={got}, FCS of the two octets is {(r ^ 0xFFFF):#06x} (low octet first)", sig="residue")
    return Info(nontrivial=True)


def good_batch(lo, hi, tier):
    """All registers: the right trailer is good; 16 one-bit-wrong trailers and the octet-swapped trailer are not."""
    n = 0
    for r in range(lo, hi):
        f = r ^ 0xFFFF
        cands = [(f & 0xFF, f >> 8)]
        for bit in range(16):
            g = f ^ (1 << bit)
            cands.append((g & 0xFF, g >> 8))
        cands.append((f >> 8, f & 0xFF))
        for t0, t1 in cands:
            try:
                good_oracle((r, t0, t1))
            except Violation as v:
                v.case = (r, t0, t1)
                raise
            n += 1
    return n, n, {"residue-trailers": n}, [{"register": hex(lo), "trailers": "correct, 16 single-bit errors, octets swapped"}] if hi > lo else []


def _uniq_registers(tier):
    seed = int(os.environ.get("VERIF_SEED", "1") or 1)
    rnd = random.Random(f"c03-uniq-{seed}")  # pure function of VERIF_SEED: selects which registers get the full trailer sweep
    k = 48 if tier == "quick" else 1024
    return sorted(rnd.sample(range(65536), k))


def uniq_batch(lo, hi, tier):
    regs = _uniq_registers(tier)[lo:hi]
    tab = prefix_table()
    n = 0
    for r in regs:
        b0, b1 = tab[r]
        f = r ^ 0xFFFF
        goods = 0
        for t0 in range(256):
            base = FCS()
            base.update(b0)
            base.update(b1)
            base.update(t0)
            mid = base.checksum ^ 0xFFFF
            for t1 in range(256):
                obj = FCS()
                obj._crc_value = mid  # noqa: SLF001 - speed only; the full public-API path is re-run below on any anomaly
                obj.update(t1)
                g = obj.is_good
                want = (t0 | (t1 << 8)) == f
                if g != want:
                    try:
                        good_oracle((r, t0, t1))
                    except Violation as v:
                        v.case = (r, t0, t1)
                        raise
                goods += bool(g)
                n += 1
        if goods != 1:
            raise _viol(f"register {r:#06x}: {goods} trailers accepted, expected exactly 1", (r, f & 0xFF, f >> 8), "residue")
    return n, n, {"all-trailers-registers": len(regs)}, [{"register": hex(regs[0]), "trailers": "all 65536"}] if regs else []


# --- Hypothesis: byte strings and windows ------------------------------------------------------------

_bytes = st.one_of(st.binary(min_size=0, max_size=64), st.binary(min_size=0, max_size=600))


def window_oracle(case) -> Info:
    data, start, length = case
    assert 0 <= start and start + length <= len(data)
    got = guarded(FCS.compute_checksum, data, start, length, what="compute_checksum")
    want = fcs16(data[start : start + length])
    if got != want:
        fail(f"compute_checksum(len={len(data)}, start={start}, length={length}) = {got:#06x}, reference {want:#06x}", sig="window")
    # incremental == one shot, after every octet
    obj = FCS()
    reg = 0xFFFF
    for i, o in enumerate(data):
        ret = obj.update(o)
        reg = fcs_step(reg, o)
        if ret != reg or obj.checksum != (reg ^ 0xFFFF):
            fail(f"incremental update diverges at octet {i}: returned {ret:#06x}, reference register {reg:#06x}", sig="incremental")
    if obj.checksum != guarded(FCS.compute_checksum, data, 0, len(data)):
        fail("incremental checksum != compute_checksum over the whole string", sig="incremental")
    nt = length >= 3 and (start > 0 or length < len(data))
    return Info(nontrivial=nt, classes=("window-partial" if (start > 0 or length < len(data)) else "window-whole",))


def _windows():
    return _bytes.flatmap(lambda d: st.integers(0, len(d)).flatmap(lambda s: st.tuples(st.just(d), st.just(s), st.integers(0, len(d) - s))))


def isgood_oracle(case) -> Info:
    """case = (body, mode, arg): message built from body + trailer variant; is_good iff it ends with FCS(body') low first."""
    body, mode, arg = case
    good = fcs16_octets(body)
    if mode == "good":
        msg = body + good
    elif mode == "flip":  # flip one bit anywhere in body+fcs
        msg = bytearray(body + good)
        bit = arg % (len(msg) * 8)
        msg[bit // 8] ^= 1 << (bit % 8)
        msg = bytes(msg)
    elif mode == "swap":
        msg = body + good[::-1]
    elif mode == "bigendian-value":  # the FCS value high octet first, i.e. the wrong order
        msg = body + bytes((fcs16(body) >> 8, fcs16(body) & 0xFF))
    else:  # raw: arbitrary message
        msg = body
    obj = FCS()
    for o in msg:
        obj.update(o)
    got = obj.is_good
    want = len(msg) >= 2 and msg[-2:] == fcs16_octets(msg[:-2])
    if bool(got) != want:
        fail(f"is_good={got} for message {msg.hex()} (mode {mode}); reference says {want}", sig="isgood")
    return Info(nontrivial=len(msg) >= 3, classes=(f"mode:{mode}", "good" if want else "bad"))


_isgood = st.tuples(_bytes, st.sampled_from(["good", "good", "flip", "flip", "swap", "bigendian-value", "raw"]), st.integers(0, 10**6))


# --- call histories: the entry points are stateless functions of the bytes passed at call time ------------------------------------

_hist_op = st.one_of(
    st.tuples(st.just("new"), st.binary(min_size=0, max_size=40), st.booleans()),
    st.tuples(st.just("mutate"), st.integers(0, 3), st.integers(0, 63), st.integers(0, 255)),
    st.tuples(st.just("mutate"), st.integers(0, 3), st.integers(0, 63), st.integers(0, 255)),
    st.tuples(st.just("append"), st.integers(0, 3), st.binary(min_size=1, max_size=4)),
    st.tuples(st.just("compute"), st.integers(0, 3), st.integers(0, 63), st.integers(0, 63)),
    st.tuples(st.just("compute"), st.integers(0, 3), st.integers(0, 63), st.integers(0, 63)),
    st.tuples(st.just("compute-same"), st.integers(0, 3)),
    st.tuples(st.just("compute-bad"), st.integers(0, 3), st.integers(0, 63), st.integers(1, 40)),
    st.tuples(st.just("incremental"), st.integers(0, 3)),
)
history_st = st.tuples(st.binary(min_size=1, max_size=40), st.lists(_hist_op, min_size=2, max_size=14)).map(lambda t: [("new", t[0], True), ("compute", 0, 0, len(t[0]))] + list(t[1]))


def history_oracle(ops) -> Info:
    """Buffers (bytes or bytearray, the latter mutated in place between calls) and interleaved calls of compute_checksum /
    the incremental object: every result must equal the reference for the buffer content at the time of the call."""
    bufs = []
    last_window = {}
    mutated_then_computed = False
    dirty = set()
    for step, op in enumerate(ops):
        kind = op[0]
        if kind == "new":
            bufs.append(bytearray(op[1]) if op[2] else bytes(op[1]))
            continue
        if not bufs:
            continue
        i = op[1] % len(bufs)
        b = bufs[i]
        if kind == "mutate":
            if isinstance(b, bytearray) and len(b):
                b[op[2] % len(b)] = op[3]
                dirty.add(i)
        elif kind == "append":
            if isinstance(b, bytearray):
                b.extend(op[2])
                dirty.add(i)
        elif kind in ("compute", "compute-same"):
            if kind == "compute-same" and i in last_window:
                start, length = last_window[i]
                start = min(start, len(b))
                length = min(length, len(b) - start)
            else:
                start = op[2] % (len(b) + 1) if kind == "compute" else 0
                length = (op[3] % (len(b) - start + 1)) if kind == "compute" else len(b)
            last_window[i] = (start, length)
            got = guarded(FCS.compute_checksum, b, start, length, what="compute_checksum")
            want = fcs16(bytes(b[start : start + length]))
            if got != want:
                fail(f"step {step}: compute_checksum({type(b).__name__} {bytes(b).hex()}, {start}, {length}) = {got:#06x}, reference {want:#06x}; history {ops[: step + 1]!r}", sig="history-window")
            if i in dirty:
                mutated_then_computed = True
        elif kind == "compute-bad":
            # a window that runs past the end of the buffer: whatever this call does (raise, most likely), it must not
            # poison the calls that follow
            start = op[2] % (len(b) + 1)
            try:
                FCS.compute_checksum(b, start, len(b) - start + op[3])
            except Exception:  # noqa: BLE001
                pass
            mutated_then_computed = mutated_then_computed or False
        elif kind == "incremental":
            obj = FCS()
            for o in b:
                obj.update(o)
            if obj.checksum != fcs16(bytes(b)):
                fail(f"step {step}: incremental checksum of {bytes(b).hex()} = {obj.checksum:#06x}, reference {fcs16(bytes(b)):#06x}", sig="history-incremental")
    return Info(nontrivial=mutated_then_computed, classes=("mutated-buffer-recomputed" if mutated_then_computed else "no-mutation",))


# --- several live check objects, forked by copy / deepcopy / pickle, fed alternately ---------------------------------------------------------

obj_history_st = st.lists(
    st.one_of(
        st.tuples(st.just("new")),
        st.tuples(st.just("feed"), st.integers(0, 7), st.binary(min_size=1, max_size=12)),
        st.tuples(st.just("fork"), st.integers(0, 7), st.sampled_from(["copy", "deepcopy", "pickle"])),
        st.tuples(st.just("feed-fcs"), st.integers(0, 7)),
    ),
    min_size=2,
    max_size=24,
)


def obj_history_oracle(ops) -> Info:
    """Model: the octets each object has been fed (a fork starts with its parent's octets). After every step EVERY live object must
    report the reference checksum / is_good for its own octets - an object and its copy are independent from the fork on."""
    import copy
    import pickle

    objs, fed = [FCS()], [b""]
    forks = 0
    for step, op in enumerate(ops):
        kind = op[0]
        if kind == "new":
            objs.append(FCS())
            fed.append(b"")
        else:
            i = op[1] % len(objs)
            if kind == "feed":
                for o in op[2]:
                    guarded(objs[i].update, o, what="update")
                fed[i] += bytes(op[2])
            elif kind == "feed-fcs":  # complete the message with its own check sequence
                tail = fcs16_octets(fed[i])
                for o in tail:
                    guarded(objs[i].update, o, what="update")
                fed[i] += tail
            elif kind == "fork" and len(objs) < 8:
                how = op[2]
                try:
                    twin = copy.copy(objs[i]) if how == "copy" else (copy.deepcopy(objs[i]) if how == "deepcopy" else pickle.loads(pickle.dumps(objs[i])))
                except Exception:  # noqa: BLE001 - an object that refuses to be copied this way is not judged
                    continue
                objs.append(twin)
                fed.append(fed[i])
                forks += 1
        for j, (o, data) in enumerate(zip(objs, fed)):
            want_good = len(data) >= 2 and fcs16_octets(data[:-2]) == data[-2:]
            if o.checksum != fcs16(data) or bool(o.is_good) != want_good:
                fail(f"step {step} ({op!r:.80}): object #{j} has been fed {data.hex()} and reports checksum {o.checksum:#06x} / is_good {o.is_good}; reference {fcs16(data):#06x} / {want_good}; history {ops[: step + 1]!r:.400}", sig="object-history")
    return Info(nontrivial=forks > 0 and len(objs) > 2, classes=(f"forks:{min(forks, 3)}",))


# --- windows longer than 64 KiB whose running register is exactly 0 at power-of-two block boundaries ---------------------------------


def zero_boundary_oracle(case) -> Info:
    """case = (block size B, blocks k, seed): data where the FCS register is 0x0000 after every B octets (forced with a two-octet
    tail per block, found by search), then a tail. compute_checksum over the whole string must match the reference."""
    import random

    B, k, seed, start = case
    rnd = random.Random(seed)
    tab = prefix_table()  # (b0,b1) for register from 0xFFFF; for other start registers search the pair directly
    data = bytearray(rnd.randbytes(start))  # octets before the window
    reg = 0xFFFF
    for _ in range(k):
        body = rnd.randbytes(B - 2)
        for o in body:
            reg = fcs_step(reg, o)
        # find the pair that drives the register to 0: the two-octet map is a bijection for any start register
        found = None
        for b0 in range(256):
            r0 = fcs_step(reg, b0)
            # second octet solves fcs_step(r0, b1) == 0 for at most one b1
            for b1 in range(256):
                if fcs_step(r0, b1) == 0:
                    found = (b0, b1)
                    break
            if found:
                break
        assert found, "no forcing pair"
        data += body + bytes(found)
        reg = 0
    tail = rnd.randbytes(rnd.randrange(1, 50))
    data += tail
    for o in tail:
        reg = fcs_step(reg, o)
    want = reg ^ 0xFFFF
    for buf in (bytes(data), bytearray(data)):
        got = guarded(FCS.compute_checksum, buf, start, len(data) - start, what="compute_checksum")
        if got != want:
            fail(f"compute_checksum over a {len(data) - start}-octet window whose register is 0x0000 after every {B} octets = {got:#06x}, reference {want:#06x} (seed {seed}, start {start})", sig="zero-boundary")
    obj = FCS()
    for o in data[start:]:
        obj.update(o)
    if obj.checksum != want:
        fail(f"incremental checksum over the same {len(data) - start} octets = {obj.checksum:#06x}, reference {want:#06x}", sig="zero-boundary-incremental")
    return Info(nontrivial=True, classes=(f"block:{B}",), sample={"block": B, "blocks": k, "window": len(data) - start})


ZERO_CASES = [(B, k, seed, start) for B in (256, 1024, 4096, 32768, 65536) for k, seed, start in ((1, 1, 0), (2, 2, 3), (1, 3, 1))] + [(65536, 3, 9, 0), (16384, 4, 5, 0), (8192, 8, 6, 7)]


# ---- the first FCS operation of a process -------------------------------------------------------------------------------------------
import itertools  # noqa: E402

_FIRST_OPS = ["static", "object", "isgood", "frame", "reader"]
_FIRST_DATA = [b"", b"\x00", bytes.fromhex("a00801020110378d"), bytes(range(256)), b"123456789"]
_FIRST_CASES = [(list(order), di) for order in itertools.permutations(_FIRST_OPS, 2) for di in range(len(_FIRST_DATA))] + [([op], di) for op in _FIRST_OPS for di in range(len(_FIRST_DATA))]

_FIRST_PROGRAM = r"""
import json, sys, logging
logging.disable(logging.CRITICAL)
order, data = json.loads(sys.argv[1]) if len(sys.argv) > 1 else (%r, bytes.fromhex(%r))
data = data if isinstance(data, bytes) else bytes.fromhex(data)
out = []
for op in order:
    try:
        if op == "static":
            from han.fastframecheck import FastFrameCheckSequence16 as F
            out.append([op, F.compute_checksum(data, 0, len(data))])
        elif op == "object":
            from han.fastframecheck import FastFrameCheckSequence16 as F
            o = F()
            for b in data:
                o.update(b)
            out.append([op, o.checksum])
        elif op == "isgood":
            from han.fastframecheck import FastFrameCheckSequence16 as F
            o = F()
            for b in data + bytes.fromhex(%r):
                o.update(b)
            out.append([op, bool(o.is_good)])
        elif op == "frame":
            from han import hdlc
            fr = hdlc.HdlcFrame()
            for b in bytes.fromhex("a00801020110378d"):
                fr.append(b)
            out.append([op, bool(fr.is_good_ffc)])
        elif op == "reader":
            from han import hdlc
            r = hdlc.HdlcFrameReader(False, False)
            fs = r.read(bytes.fromhex("7ea00801020110378d7e"))
            out.append([op, [bool(f.is_good_ffc) for f in fs]])
    except Exception as exc:
        out.append([op, "raised " + type(exc).__name__ + ": " + str(exc)[:80]])
print("FRESH-RESULT " + json.dumps(out))
"""


def first_op_oracle(case) -> Info:
    from vlib.freshproc import fresh_eval

    order, di = list(case[0]), case[1]
    data = _FIRST_DATA[di]
    prog = _FIRST_PROGRAM % (order, data.hex(), fcs16_octets(data).hex())
    got, err = fresh_eval(prog)
    if got is None:
        raise RuntimeError(f"fresh interpreter failed: {err}")
    want = {"static": fcs16(data), "object": fcs16(data), "isgood": True, "frame": True, "reader": [True]}
    for op, val in got:
        if val != want[op]:
            fail(f"in a fresh process, operation sequence {order} on data {data.hex() or '(empty)'}: '{op}' gave {val!r}, expected {want[op]!r} (the result of an FCS operation must not depend on which operation ran first)", sig=f"first-op-{op}")
    return Info(nontrivial=True, classes=(f"first:{order[0]}",), sample={"order": order, "data": data.hex()})


def build() -> Check:
    return Check(
        pid="C03",
        level="exploration",
        rule=(
            "step: every (register, octet) pair, 2^24, each reached through the public API by a two-octet prefix computed with the "
            "bit-serial reference - every pair is distinct and non-trivial by construction (exhaustive for the step function, hence all "
            "byte strings by induction). residue: all 2^16 registers x {correct trailer, 16 one-bit-wrong trailers, swapped octets}; "
            "uniq: seeded registers x all 65 536 trailers (exactly one accepted). windows/isgood: Hypothesis byte strings (0..600 octets) "
            "x start/length windows and trailer variants; non-trivial = window length >= 3 and not the whole string / message >= 3 octets; "
            "distinct by case hash. call-histories: operation lists over up to 4 buffers (bytes or bytearray; mutate in place, append, "
            "compute a window, recompute the same window, incremental) - every result must match the reference for the content at call "
            "time (including calls with an out-of-range window in between, whose own outcome is not judged); non-trivial = a window computed "
            "after the buffer was mutated. zero-register-boundaries: windows of 256 B .. 192 KiB constructed so that the running register "
            "is exactly 0x0000 after every 2^k octets (k = 8..16)."
            ' first-operation: one fresh interpreter per case; every ordered pair (and single) of {static compute_checksum, object update/checksum, is_good, HdlcFrame check, reader} as the first FCS operations of the process x 5 data values, compared with the reference.'
            ' object-histories: up to 8 live check objects created, fed, completed with their own check sequence and forked by copy.copy / copy.deepcopy / pickle in any order; after every step every object must report the reference checksum and is_good for the octets it (and its ancestors up to the fork) were fed.'
        ),
        assumptions=[
            "The reference is the bit-serial RFC 1662 algorithm in vlib/ref_fcs.py (no table).",
            "Induction from the step function to all byte strings assumes update() depends only on the register (the object has no other state); the Hypothesis clauses test whole strings directly as well.",
            "uniq inner loop sets the private register from the public checksum for speed and re-runs the public path on any anomaly.",
        ],
        extra=lambda: {"exhaustive": False, "exhaustive_subdomains": ["step (2^24 register x octet pairs)", "residue (2^16 registers)"]},
        clauses=[
            EnumClause("step", size=lambda t: 65536, case_at=lambda i, t: (i, 0), oracle=step_oracle, batch=step_batch, doc="2^24 pairs; index = register"),
            EnumClause("residue", size=lambda t: 65536, case_at=lambda i, t: (i, (i ^ 0xFFFF) & 0xFF, (i ^ 0xFFFF) >> 8), oracle=good_oracle, batch=good_batch, doc="good-FCS residue for all registers"),
            EnumClause("uniq", size=lambda t: 48 if t == "quick" else 1024, case_at=lambda i, t: (_uniq_registers(t)[i], 0, 0), oracle=good_oracle, batch=uniq_batch, doc="all trailers for seeded registers", exhaustive=False),
            HypClause("windows", _windows, window_oracle, quick=20000, thorough=1000000),
            HypClause("isgood", _isgood, isgood_oracle, quick=20000, thorough=1000000),
            EnumClause("zero-register-boundaries", size=lambda t: len(ZERO_CASES), case_at=lambda i, t: ZERO_CASES[i], oracle=zero_boundary_oracle, doc="windows up to 192 KiB whose register is 0x0000 after every 2^k octets", exhaustive=False),
            EnumClause("first-operation", size=lambda t: len(_FIRST_CASES), case_at=lambda i, t: _FIRST_CASES[i], oracle=first_op_oracle, doc="fresh interpreter per case: every ordered pair (and single) of {static compute_checksum, object update/checksum, is_good, HdlcFrame check, reader} as the FIRST FCS operations of the process x 5 data values", exhaustive=False),
            HypClause("object-histories", lambda: obj_history_st, lambda ops: obj_history_oracle([tuple(o) for o in ops]), quick=4000, thorough=100000, doc="several live check objects, forked by copy / deepcopy / pickle and fed alternately: each must follow the reference for its own octets"),
            HypClause("call-histories", history_st, lambda ops: history_oracle([tuple(o) for o in ops]), quick=10000, thorough=300000, doc="interleaved calls on bytes / in-place mutated bytearray buffers: no state may leak between calls"),
        ],
    )
