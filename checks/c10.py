"""C10 - COSEM date-time fields decode to the same instant the meter sent."""
from __future__ import annotations

import logging

from hypothesis import strategies as st

from han import aidon, kaifa, kamstrup
from vlib import gen_cosem as C
from vlib.pool import PRELUDES, run_prelude
from vlib.runner import Check, HypClause, Info, fail, guarded

logging.disable(logging.CRITICAL)

POSITIONS = ["apdu-tagged-kaifa", "apdu-untagged-kaifa", "apdu-tagged-kamstrup", "apdu-untagged-kamstrup", "aidon-element-body", "aidon-element-frame",
             "kaifa-positional-body", "kaifa-positional-frame", "kaifa-obis-body", "kaifa-obis-frame", "kamstrup-element-body"]

_OTHER = (2019, 2, 4, 1, 23, 52, 22, 0xFF, C.UNSPEC_DEV, 0)  # a different date-time for the slot that must NOT be reported
_OTHER_AWARE = (2031, 7, 9, 3, 4, 5, 6, 50, -120, 0x80)  # ... and one with a deviation, hundredths and a status (round-11 seed C10-r11D1)
_OTHERS = (_OTHER, _OTHER_AWARE)

_KAIFA3 = [(n, "text", C._KAIFA_TEXT[n]) if n in C._KAIFA_TEXT else ((n, "clock", None) if n == "meter_datetime" else (n, "reg", 1000 + i)) for i, n in enumerate(C.K3)]
_KAIFA_SE = [(n, "text", C._KAIFA_TEXT[n]) if n in C._KAIFA_TEXT else ((n, "clock", None) if n == "meter_datetime" else (n, "reg", 2000 + i)) for i, (_o, n) in enumerate(C.KAIFA_SE_OBIS)]
_KAM_ITEMS = [(C.KAM_ID[0][0], "meter_id", "text", "5706567000000000"), (C.KAM_ID[1][0], "meter_type", "text", "6841121BN243101040"), ("1.1.1.7.0.255", "active_power_import", "u32", 5),
              (C.KAM_CLOCK[0], "meter_datetime", "clock", None), ("1.1.1.8.0.255", "active_power_import_total", "u32", 7)]


def _with_clock(items, spec, idx):
    return [tuple(list(it[:idx]) + [spec]) if it[idx - 1] == "clock" else it for it in items]


def decode_at(position, spec, other=_OTHER):
    """Build a message carrying spec at the position and return the decoded 'meter_datetime'."""
    if position.startswith("apdu-"):
        tagged = "-tagged-" in position
        if position.endswith("kaifa"):
            body, _ = C.kaifa_body(1, [("active_power_import", "reg", 1234)])
            d = guarded(kaifa.decode_frame_content, C.llc_apdu(body, spec, tagged), what="kaifa.decode_frame_content")
        else:
            items = [it if it[2] != "clock" else (it[0], it[1], "clock", other) for it in _KAM_ITEMS]
            body, _, _ = C.kamstrup_body("Kamstrup_V0001", items, [0] * (len(items) + 1))
            d = guarded(kamstrup.decode_frame_content, C.llc_apdu(body, spec, tagged), what="kamstrup.decode_frame_content")
    elif position.startswith("aidon-element"):
        body, _ = C.aidon_body([("text", "1.1.0.2.129.255", "AIDON_V0001"), ("clock", C.AIDON_CLOCK, spec), ("reg", "1.0.1.8.0.255", "u32", 12, 1, "Wh")])
        if position.endswith("body"):
            d = guarded(aidon.decode_notification_body, body, what="aidon.decode_notification_body")
        else:
            d = guarded(aidon.decode_frame_content, C.llc_apdu(body, None), what="aidon.decode_frame_content")
    elif position.startswith("kaifa-positional"):
        body, _ = C.kaifa_body(18, _with_clock(_KAIFA3, spec, 2))
        if position.endswith("body"):
            d = guarded(kaifa.decode_notification_body, body, what="kaifa.decode_notification_body")
        else:  # the list's own clock element wins over the APDU date-time
            d = guarded(kaifa.decode_frame_content, C.llc_apdu(body, other, True), what="kaifa.decode_frame_content")
    elif position.startswith("kaifa-obis"):
        body, _ = C.kaifa_body("se", _with_clock(_KAIFA_SE, spec, 2))
        if position.endswith("body"):
            d = guarded(kaifa.decode_notification_body, body, what="kaifa.decode_notification_body")
        else:
            d = guarded(kaifa.decode_frame_content, C.llc_apdu(body, None), what="kaifa.decode_frame_content")
    else:
        items = [it if it[2] != "clock" else (it[0], it[1], "clock", spec) for it in _KAM_ITEMS]
        body, _, _ = C.kamstrup_body("Kamstrup_V0001", items, [0] * (len(items) + 1))
        d = guarded(kamstrup.decode_notification_body, body, what="kamstrup.decode_notification_body")
    if not isinstance(d, dict) or "meter_datetime" not in d:
        fail(f"{position}: no meter_datetime in {d!r:.200}", sig=f"missing:{position}")
    return d["meter_datetime"]


def oracle(case) -> Info:
    with C.local_tz(len(repr(case))):  # the process's local time zone is part of the environment: results must not depend on it
        return _oracle_tz(case)


def _oracle_tz(case) -> Info:
    spec = tuple(case[:10])
    exp = C.dt_expected(spec)
    twin = tuple(case[10]) if len(case) > 10 and case[10] is not None else None
    threaded = (spec[6] + spec[5]) % 3 == 0  # every third case decodes on a fresh non-main thread
    for pos in POSITIONS:
        if twin is not None:
            # a date-time with the same civil fields but another deviation/hundredths - or the same instant written with another
            # deviation - decoded just before must not matter
            decode_at(pos, twin)
        # positions with a second date-time slot that must not be reported (or mixed in): that slot is tried naive and aware
        others = _OTHERS if pos in ("kaifa-positional-frame", "apdu-tagged-kamstrup", "apdu-untagged-kamstrup") else (_OTHER,)
        for other in others:
            got = C.run_in_thread(lambda: decode_at(pos, spec, other)) if threaded else decode_at(pos, spec, other)
            m = C.same_dt(got, exp)
            if m:
                fail(f"{pos}: date-time octets {C.dt_octets(spec).hex()} (other slot {C.dt_octets(other).hex()}) decoded to {got!r}: {m}", sig=f"dt:{pos}")
    _y, _mo, _d, _dow, _h, _mi, _s, hs, dev, status = spec
    classes = []
    if dev != C.UNSPEC_DEV:
        classes.append("deviation:" + ("0" if dev == 0 else ("pos" if dev > 0 else "neg")))
    else:
        classes.append("deviation:unspecified")
    if status == 0xFF:
        classes.append("status:FF")
    if hs not in (0, 0xFF):
        classes.append("hundredths:1..99")
    nt = (dev != C.UNSPEC_DEV and dev != 0) or status == 0xFF or hs not in (0, 0xFF)
    return Info(nontrivial=nt, classes=tuple(classes), sample={"octets": C.dt_octets(spec).hex(), "expected": exp.isoformat()})


@st.composite
def _case_st(draw):
    spec = draw(C.dt_spec_st())
    twin = None
    if draw(st.booleans()):
        other = draw(C.dt_spec_st())
        twin = spec[:7] + (other[7], other[8], other[9])  # same civil fields, different hundredths / deviation / status
        if draw(st.booleans()):
            twin = C.same_instant_twin(spec, draw(st.sampled_from([0, 60, -60, 120, -120, 720, -720]) | st.integers(-720, 720))) or twin
    return spec + (twin,)


def build() -> Check:
    return Check(
        pid="C10",
        level="exploration",
        rule=(
            "Date-times: any calendar date 1..9999 and time of day (boundaries forced), hundredths 0..99 or 0xFF, deviation -720..720 "
            "(boundaries, +-1, +-60 forced) or 0x8000, any status octet, any day-of-week octet; each placed in 11 message positions "
            "covering the six syntactic places (APDU tagged/untagged seen through a Kaifa list-1 frame and a Kamstrup frame; Aidon clock "
            "element body+frame; Kaifa positional clock body+frame with a different APDU date-time that must lose; Kaifa OBIS-tagged clock "
            "body+frame; Kamstrup clock element). Oracle: civil fields, microseconds = hundredths*10000, tz None iff deviation "
            "unspecified else utcoffset = -deviation - fields and offset compared separately. Non-trivial = deviation specified and "
            "!= 0, or status 0xFF, or hundredths in 1..99. In half of the cases a 'twin' date-time with the same civil fields but different "
            "hundredths/deviation/status is decoded in the same position immediately before (no state may carry over). Distinct = case hash."
        ),
        assumptions=["Every third case decodes on a fresh non-main thread; twins include the same instant written with another deviation.", "Year/month/day/hour/minute/second are specified (the property's domain); the surrounding message content is fixed and well-formed."],
        clauses=[HypClause("datetimes", _case_st, oracle, quick=4000, thorough=100000)],
    )
