"""C13 - Protocols forward exactly the selected reader's messages, payloads only if valid."""
from __future__ import annotations

import asyncio
import logging

from hypothesis import strategies as st

from checks import c01, c02, c05, c14
from han import dlde, hdlc, meter_connection
from vlib import gen_hdlc as GH
from vlib import gen_p1 as GP
from vlib import resync
from vlib.ref_hdlc import FLAG, ref_fields
from vlib.runner import Check, HypClause, Info, fail, guarded

logging.disable(logging.CRITICAL)

_loop = None


def _ensure_loop():
    global _loop
    if _loop is None:
        _loop = asyncio.new_event_loop()
        asyncio.set_event_loop(_loop)


def make_readers(spec):
    """spec: tuple of 'P' or ('H', stuffing, abort)."""
    out = []
    for s in spec:
        if s == "P" or s == ("P",) or (isinstance(s, (tuple, list)) and s[0] == "P"):
            out.append(dlde.ModeDReader())
        else:
            out.append(hdlc.HdlcFrameReader(use_octet_stuffing=bool(s[1]), use_abort_sequence=bool(s[2])))
    return out


def drain(q):
    items = []
    while not q.empty():
        items.append(q.get_nowait())
    return items


def view(msg):
    return (type(msg).__name__, msg.as_bytes, bool(msg.is_valid))


class _Transport(asyncio.BaseTransport):
    """What asyncio hands to connection_made()."""

    def __init__(self):
        super().__init__()
        self.closed = False

    def close(self):
        self.closed = True

    def is_closing(self):
        return self.closed

    def get_extra_info(self, name, default=None):
        return ("fake-host", 4059) if name == "peername" else default


def run_protocol(kind, spec, chunks, gap_pattern="none"):
    _ensure_loop()
    from vlib import fakeclock

    q = asyncio.Queue()
    cls = meter_connection.SmartMeterMessagePayloadProtocol if kind == "payload" else meter_connection.SmartMeterMessageProtocol
    readers = make_readers(spec)
    proto = guarded(cls, q, readers if len(chunks) % 2 else tuple(readers), what=cls.__name__)  # candidates given as a list or a tuple
    per_chunk = []
    gaps = fakeclock.gaps_for(len(chunks), gap_pattern, len(chunks))
    if (sum(map(len, chunks)) + (kind == "payload")) % 2:
        # the life cycle asyncio drives: connection_made(transport) comes before the first data (the other half of the runs feeds
        # data to a protocol object that was never attached to a transport, as unit tests do)
        guarded(proto.connection_made, _Transport(), what=f"{cls.__name__}.connection_made")
    with fakeclock.FakeClock() as clk:  # virtual seconds pass between the calls: forwarding must not depend on timing
        for ch, gap in zip(chunks, gaps):
            clk.advance(gap)
            guarded(proto.data_received, ch, what=f"{cls.__name__}.data_received")
            per_chunk.append(drain(q))
    return per_chunk


def twin_expectations(spec, chunks):
    """For every candidate: per-chunk list of its twin's messages; and the earliest chunk in which any candidate is valid."""
    twins = make_readers(spec)
    per = [[] for _ in twins]
    for ch in chunks:
        for i, t in enumerate(twins):
            per[i].append(list(t.read(ch)))
    first_valid = [next((k for k, msgs in enumerate(p) if any(m.is_valid for m in msgs)), None) for p in per]
    ks = [k for k in first_valid if k is not None]
    k0 = min(ks) if ks else None
    return per, first_valid, k0


def general_oracle(case) -> Info:
    spec, stream, cuts = tuple(tuple(s) if isinstance(s, (list, tuple)) else s for s in case[0]), case[1], tuple(case[2])
    chunks = GH.split(stream, cuts)
    per, first_valid, k0 = twin_expectations(spec, chunks)
    classes = [f"candidates:{''.join('P' if (s == 'P' or s[0] == 'P') else 'H' for s in spec)}"]
    nontrivial = False
    for kind in ("payload", "message"):
        got = run_protocol(kind, spec, chunks)
        if k0 is None:
            if any(got):
                fail(f"{kind} protocol {spec}: no candidate ever produced a valid message, yet {sum(map(len, got))} items were enqueued; stream {stream.hex()[:300]}", sig=f"{kind}-enqueued-without-selection")
            continue
        for k in range(k0):
            if got[k]:
                fail(f"{kind} protocol {spec}: {len(got[k])} items enqueued in chunk {k}, before any candidate produced a valid message (chunk {k0})", sig=f"{kind}-before-selection")
        cands = [i for i, fv in enumerate(first_valid) if fv == k0]
        ok = False
        details = []
        for c in cands:
            if kind == "payload":
                want = [[m.payload for m in msgs if m.is_valid and m.payload] for msgs in per[c][k0:]]
                have = got[k0:]
            else:
                want = [[view(m) for m in msgs] for msgs in per[c][k0:]]
                have = [[view(m) for m in items] for items in got[k0:]]
            if have == want:
                ok = True
                break
            j = next((j for j in range(len(want)) if have[j] != want[j]), 0)
            details.append(f"candidate #{c}: chunk {k0 + j}: expected {want[j]!r:.200} got {have[j]!r:.200}")
        if not ok:
            fail(
                f"{kind} protocol, candidates {spec}, {len(chunks)} chunks, selection at chunk {k0}: queue content matches no candidate that became valid in that chunk; " + " | ".join(details) + f"; stream {stream.hex()[:200]}",
                sig=f"{kind}-queue-mismatch",
            )
        if len(spec) >= 2 and k0 >= 1:
            nontrivial = True
        for c in cands:
            msgs = per[c][k0]
            fv = next(i for i, m in enumerate(msgs) if m.is_valid)
            if fv > 0:
                nontrivial = True
                classes.append("invalid-before-first-valid-in-selection-chunk")
                break
    classes.append("selected" if k0 is not None else "never-selected")
    if k0 is not None and len(set(i for i, fv in enumerate(first_valid) if fv is not None)) > 1:
        classes.append("several-candidates-would-become-valid")
    return Info(nontrivial=nontrivial, classes=tuple(dict.fromkeys(classes)))


# ---- generators ---------------------------------------------------------------------------------------------------------

_hcfg = st.sampled_from([("H", 0, 0), ("H", 0, 0), ("H", 1, 0), ("H", 1, 1), ("H", 0, 1)])
spec_st = st.one_of(
    st.tuples(_hcfg),
    st.just(("P",)).map(lambda t: (("P",),)),
    st.tuples(_hcfg, st.just(("P",))),
    st.tuples(st.just(("P",)), _hcfg),
    st.tuples(_hcfg, _hcfg),
)


@st.composite
def segment_st(draw):
    kind = draw(st.sampled_from(["hdlc-clean", "hdlc-clean", "hdlc-mixed", "p1-good", "p1-bad", "noise", "p1-good"]))
    if kind == "hdlc-clean":
        stuffing = draw(st.booleans())
        frames = resync.clean_frames(draw(st.integers(1, 4)), stuffing, False, draw(st.integers(0, 10**6)))
        if draw(st.booleans()):
            frames.insert(draw(st.integers(0, len(frames))), GH.build_frame(0xA, 0, b"\x01", b"\x03", 0x10, None))  # header-only: empty payload
        tail, _ = resync.frames_tail(frames, stuffing, draw(st.integers(0, 99)))
        return tail
    if kind == "hdlc-mixed":
        return draw(c01.case_st())[2]
    if kind in ("p1-good", "p1-bad"):
        ro = GP.build_readout(draw(GP.readout_spec_st(max_lines=6)))
        if kind == "p1-bad":
            end = GP.end_line_pos(ro)
            ro = ro[: end + 1] + draw(st.sampled_from([b"0000", b"FFFF", b"12", b"ZZZZ"])) + b"\r\n"
        return ro
    return b"".join(draw(st.lists(c14.token_st, max_size=4)))


@st.composite
def general_case_st(draw):
    stream = b"".join(draw(st.lists(segment_st(), min_size=1, max_size=5)))
    return (draw(spec_st), stream, draw(GH.cuts_st()))


# ---- clean streams: every message's non-empty payload, whichever candidate order -------------------------------------------------


def clean_oracle(case) -> Info:
    kind_of_stream, order, payload_case, cuts = case[0], case[1], case[2], tuple(case[3])
    if kind_of_stream == "hdlc":
        stuffing, abort, noise, frames, gaps, closing, extra, _ = payload_case
        frames = [bytes(f) for f in frames]
        stream, _spans = c02.compose(stuffing, noise, frames, gaps, closing, frozenset(extra))
        sent_payloads = [ref_fields(f)["payload"] for f in frames]
        sent_payloads = [p for p in sent_payloads if p]
        sent_views = [("HdlcFrame", f, True) for f in frames]
        h = ("H", int(stuffing), int(abort))
        # ambiguity guard (stated in DESIGN): the HDLC stream must not happen to contain something the P1 reader accepts
        if any(m.is_valid for m in dlde.ModeDReader().read(stream)):
            return Info(nontrivial=False, classes=("ambiguous-skipped",))
    else:
        tail, readouts = c05.build_stream(payload_case)
        stream = tail + b"".join(readouts)
        assert FLAG not in stream
        sent_payloads = [r[r.index(b"\n") + 1 : GP.end_line_pos(r)] for r in readouts]
        sent_payloads = [p for p in sent_payloads if p]
        sent_views = [("DataReadout", r, True) for r in readouts]
        h = ("H", 0, 0)
    spec = {"H": (h,), "P": (("P",),), "HP": (h, ("P",)), "PH": (("P",), h)}[order]
    if (kind_of_stream == "hdlc" and order == "P") or (kind_of_stream == "p1" and order == "H"):
        spec = (h, ("P",))
    chunks = GH.split(stream, cuts) if kind_of_stream == "hdlc" else c05.chunks_of(stream, cuts, c05.build_stream(payload_case)[1])
    gp = ("none", "mixed", "long")[len(stream) % 3]
    got_p = [x for items in run_protocol("payload", spec, chunks, gp) for x in items]
    if got_p != sent_payloads:
        i = next((k for k in range(min(len(got_p), len(sent_payloads))) if got_p[k] != sent_payloads[k]), min(len(got_p), len(sent_payloads)))
        fail(f"clean {kind_of_stream} stream, candidates {spec}: {len(sent_payloads)} non-empty payloads sent, {len(got_p)} enqueued; first difference at #{i}", sig=f"clean-{kind_of_stream}-payloads")
    got_m = [view(x) for items in run_protocol("message", spec, chunks, gp) for x in items]
    if got_m != sent_views:
        fail(f"clean {kind_of_stream} stream, candidates {spec}: message protocol enqueued {len(got_m)} messages, {len(sent_views)} sent (or content differs)", sig=f"clean-{kind_of_stream}-messages")
    return Info(nontrivial=len(spec) >= 2 and len(chunks) > 1, classes=(f"clean:{kind_of_stream}", f"order:{''.join('P' if s[0] == 'P' else 'H' for s in spec)}"))


@st.composite
def clean_case_st(draw):
    kind = draw(st.sampled_from(["hdlc", "p1"]))
    order = draw(st.sampled_from(["HP", "PH", "H" if kind == "hdlc" else "P"]))
    if kind == "hdlc":
        pc = draw(c02.case_st())
        return (kind, order, pc, pc[7])
    idents = [(m, b, e, i.replace("~", "-")) for (m, b, e, i) in draw(st.lists(GP.ident_st(), min_size=1, max_size=2))]  # no 0x7E in P1 text
    n = draw(st.integers(1, 12))
    pc = (idents, n, draw(st.integers(0, 2**31)), (0, 8), draw(st.sampled_from([["upper"], ["upper", "none"], ["lower", "none"]])), draw(st.sampled_from([0, 0, 5, 40])), ("none",))
    return (kind, order, pc, draw(GH.cuts_st()))


# ---- the caller's candidate list is used for a second protocol (a connection factory does this on every reconnect) -----------------


def reuse_oracle(case) -> Info:
    kind_of_stream, seed, n1, n2, kind = case
    _ensure_loop()
    h = ("H", 0, 0)
    spec = (h, ("P",)) if seed % 2 else (("P",), h)
    cls = meter_connection.SmartMeterMessagePayloadProtocol if kind == "payload" else meter_connection.SmartMeterMessageProtocol
    delivered = []
    candidates = make_readers(spec)  # ONE list object, owned by the caller
    snapshot = list(candidates)
    for round_, n in enumerate((n1, n2)):
        if kind_of_stream == "hdlc":
            msgs = resync.clean_frames(n, False, False, seed + round_, min_info=2, max_info=8)
            stream, _ = resync.frames_tail(msgs, False, seed)
            want = [ref_fields(f)["payload"] for f in msgs]
        else:
            msgs = resync.clean_readouts(n, seed + round_)
            stream = b"".join(msgs)
            want = [m[m.index(b"\n") + 1 : GP.end_line_pos(m)] for m in msgs]
            want = [w for w in want if w]
        q = asyncio.Queue()
        proto = guarded(cls, q, candidates, what=cls.__name__)
        for ch in GH.split(stream, ("fixed", 50, 0)):
            guarded(proto.data_received, ch, what=f"{cls.__name__}.data_received")
        items = drain(q)
        got = items if kind == "payload" else [m.payload for m in items if m.payload]
        if got != want:
            fail(f"protocol #{round_ + 1} built from the same candidate list object: {len(want)} clean {kind_of_stream} messages sent, {len(got)} forwarded (caller's list now has {len(candidates)} of {len(snapshot)} readers)", sig="reused-candidate-list")
        if candidates != snapshot:
            fail(f"the caller's candidate list was modified by the protocol ({len(candidates)} of {len(snapshot)} readers left)", sig="reused-candidate-list")
    return Info(nontrivial=True, classes=(f"reuse:{kind_of_stream}:{kind}",))


reuse_st = st.tuples(st.sampled_from(["hdlc", "p1"]), st.integers(0, 10**6), st.integers(1, 6), st.integers(1, 6), st.sampled_from(["payload", "message"]))


# ---- protocols as the library's own connection factory builds them (default candidate readers), one connection after another ------


class _FakeLoop:
    """Just enough of an event loop for han.tcp_connection_factory: create_connection() builds the protocol and hands it back."""

    def __init__(self):
        self.protocols = []

    async def create_connection(self, protocol_factory, *args, **kwargs):
        proto = protocol_factory()
        self.protocols.append(proto)
        return (None, proto)


def factory_oracle(case) -> Info:
    kind_of_stream, seed, n_conn, kind, cut_mid = case
    _ensure_loop()
    from han import tcp_connection_factory as tcp

    create = tcp.create_tcp_message_payload_connection if kind == "payload" else tcp.create_tcp_message_connection
    floop = _FakeLoop()
    for conn in range(n_conn):
        q = asyncio.Queue()
        coro = create(q, floop, None, "fake-host", 1234)
        try:
            coro.send(None)
        except StopIteration as stop:
            _transport, proto = stop.value
        else:
            raise AssertionError("factory did not complete synchronously with the fake loop")
        if kind_of_stream == "hdlc":
            # the factory's default HDLC reader has abort detection on
            msgs = resync.clean_frames(4, False, True, seed + conn, min_info=2, max_info=8)
            stream, _ = resync.frames_tail(msgs, False, seed)
            want = [ref_fields(f)["payload"] for f in msgs]
        else:
            msgs = resync.clean_readouts(4, seed + conn)
            stream = b"".join(msgs)
            want = [m[m.index(b"\n") + 1 : GP.end_line_pos(m)] for m in msgs]
        last = conn == n_conn - 1
        feed = stream if last or not cut_mid else stream[: len(stream) - 1 - seed % 9]  # earlier connections may die mid-message
        for ch in GH.split(feed, ("fixed", 40, 0)):
            guarded(proto.data_received, ch, what="data_received")
        items = drain(q)
        got = items if kind == "payload" else [m.payload for m in items]
        if last or not cut_mid:
            if got != [w for w in want if w]:
                fail(f"connection #{conn + 1} of {n_conn} created by han.tcp_connection_factory with default readers: {len(want)} clean {kind_of_stream} messages sent, {len(got)} forwarded", sig="factory-connection")
    return Info(nontrivial=n_conn >= 2, classes=(f"factory:{kind_of_stream}:{kind}", f"connections:{n_conn}"))


factory_st = st.tuples(st.sampled_from(["hdlc", "p1"]), st.integers(0, 10**6), st.integers(1, 3), st.sampled_from(["payload", "message"]), st.booleans())


# ---- backlog: many messages enqueued while nothing consumes the queue -------------------------------------------------------------


def backlog_oracle(case) -> Info:
    kind_of_stream, n, seed, chunk = case
    if kind_of_stream == "hdlc":
        msgs = resync.clean_frames(n, False, False, seed, min_info=2, max_info=4)
        stream, _ = resync.frames_tail(msgs, False, seed)
        sent_payloads = [ref_fields(f)["payload"] for f in msgs]
        spec = (("H", 0, 0), ("P",))
    else:
        msgs = [GP.add_end(b"/ABC5x\r\n" + f"0-0:96.1.9({i:06d})\r\n".encode(), "none") for i in range(n)]
        stream = b"".join(msgs)
        sent_payloads = [m[m.index(b"\n") + 1 : GP.end_line_pos(m)] for m in msgs]
        spec = (("P",), ("H", 0, 0))
    chunks = [stream] if chunk == 0 else [stream[i : i + chunk] for i in range(0, len(stream), chunk)]
    _ensure_loop()
    for kind in ("payload", "message"):
        q = asyncio.Queue()
        cls = meter_connection.SmartMeterMessagePayloadProtocol if kind == "payload" else meter_connection.SmartMeterMessageProtocol
        proto = guarded(cls, q, make_readers(spec), what=cls.__name__)
        for ch in chunks:
            guarded(proto.data_received, ch, what=f"{cls.__name__}.data_received")
        items = drain(q)  # only now: nothing consumed the queue while the messages arrived
        got = items if kind == "payload" else [m.payload for m in items]
        if got != sent_payloads:
            fail(f"{kind} protocol: {n} {kind_of_stream} messages arrived while the queue was not consumed; {len(got)} items on the queue afterwards (first sent payload present: {bool(got) and got[0] == sent_payloads[0]})", sig=f"backlog-{kind}")
    return Info(nontrivial=n > 64, classes=(f"backlog:{kind_of_stream}", "n>256" if n > 256 else "n<=256"))


backlog_st = st.tuples(st.sampled_from(["hdlc", "p1"]), st.sampled_from([1, 64, 255, 256, 257, 300, 1000, 1025]) | st.integers(1, 1500), st.integers(0, 10**6), st.sampled_from([0, 0, 7, 100, 1000, 4096]))


def build() -> Check:
    return Check(
        pid="C13",
        level="exploration",
        rule=(
            "general: streams of 1..5 segments (clean HDLC frames incl. header-only ones, C01 good/defective/noise token streams, valid P1 "
            "readouts, readouts with wrong or malformed checksum, C14 noise tokens) x splittings into data_received() calls x candidate "
            "lists [HDLC(cfg)], [P1], [HDLC(cfg),P1], [P1,HDLC(cfg)], [HDLC(cfg1),HDLC(cfg2)] x both protocol classes. Oracle: twin readers "
            "of the same classes/configuration fed the same chunks; selection chunk k = earliest chunk in which any candidate yields a "
            "valid message; the queue must be empty before k and, from k on, equal chunk by chunk the selected twin's non-empty valid "
            "payloads (payload protocol) / all its messages as (type, bytes, validity) (message protocol), for one of the candidates "
            "that became valid in chunk k. Non-trivial = >=2 candidates and selection at chunk >=1, or an invalid message precedes the "
            "first valid one in the selection chunk. clean: C02-domain HDLC streams and C05-domain P1 streams with candidate orders "
            "[HDLC,P1] and [P1,HDLC] (and the single matching reader): the payload queue equals every sent message's non-empty payload, "
            "the message queue every sent message. reused-list: two protocol instances built one after the other from the caller's same list object, "
            "each fed a clean stream - both must forward everything and the caller's list must be left as it was. factory: protocols obtained from han.tcp_connection_factory (default candidate readers) through a fake loop, 1..3 connections one after "
            "another (earlier ones may end mid-message), each must forward its clean stream completely. backlog: 1..1500 small clean messages (boundaries 255/256/257/1025 forced) delivered in one or "
            "several calls while nothing consumes the queue - afterwards the queue must hold every one of them, in order."
            ' In half of the runs connection_made(fake transport) is called before the first data (the life cycle asyncio drives), in the other half the protocol is fed without ever being attached.'
        ),
        assumptions=[
            "Candidate readers are passed as a list or as a tuple (the parameter is a Sequence); in the clean clause virtual time gaps of 0 s .. 1 day pass between data_received() calls.",
            "If several candidates become valid in the same chunk, either may be the selected one (the property does not fix the tie-break).",
            "Clean clause: an HDLC stream on which a stand-alone P1 reader finds a valid readout is skipped as inherently ambiguous (class ambiguous-skipped); P1 text never contains 0x7E.",
        ],
        clauses=[
            HypClause("general", general_case_st, general_oracle, quick=5000, thorough=150000),
            HypClause("clean", clean_case_st, clean_oracle, quick=3000, thorough=60000),
            HypClause("reused-list", reuse_st, reuse_oracle, quick=400, thorough=8000, doc="two protocols built one after the other from the caller's same candidate list"),
            HypClause("factory", factory_st, factory_oracle, quick=300, thorough=6000, doc="protocols built by han.tcp_connection_factory with its default readers, 1..3 connections in a row"),
            HypClause("backlog", backlog_st, backlog_oracle, quick=150, thorough=3000, doc="1..1500 small messages enqueued before the queue is read"),
        ],
    )
