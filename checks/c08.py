"""C08 - Kaifa lists decode to the transmitted values with the documented scaling."""
from __future__ import annotations

import logging

from han import kaifa
from vlib import gen_cosem as C
from hypothesis import strategies as st

from vlib.pool import PRELUDES, run_prelude
from vlib.runner import Check, HypClause, Info, fail, guarded

logging.disable(logging.CRITICAL)


def oracle(case) -> Info:
    with C.local_tz(len(repr(case))):  # the process's local time zone is part of the environment: results must not depend on it
        return _oracle_tz(case)


def _oracle_tz(case) -> Info:
    layout, items, apdu_dt, tagged = case[0], [tuple(i) for i in case[1]], case[2], case[3]
    prelude = case[4] if len(case) > 4 else "none"
    run_prelude(prelude)
    body, exp = C.kaifa_body(layout, items)
    C.scribble(guarded(kaifa.decode_notification_body, body, what="kaifa.decode_notification_body"))  # a first result, modified by the caller
    d_body = guarded(kaifa.decode_notification_body, body, what="kaifa.decode_notification_body")
    m = C.dict_mismatch(d_body, exp)
    if m:
        fail(f"decode_notification_body (layout {layout}): {m}; body {body.hex()[:600]}", sig="body:" + m.split(":")[0][:40])
    frame = C.llc_apdu(body, None if apdu_dt is None else tuple(apdu_dt), tagged)
    C.scribble(guarded(kaifa.decode_frame_content, frame, what="kaifa.decode_frame_content"))
    d_frame = guarded(kaifa.decode_frame_content, frame, what="kaifa.decode_frame_content")
    exp_frame = dict(exp)
    has_clock = any(k == "clock" for _n, k, _v in items)
    if not has_clock:
        assert apdu_dt is not None
        exp_frame["meter_datetime"] = C.dt_expected(tuple(apdu_dt))  # APDU date-time unless the list carries its own clock
    m = C.dict_mismatch(d_frame, exp_frame)
    if m:
        fail(f"decode_frame_content (layout {layout}): {m}; frame {frame.hex()[:600]}", sig="frame:" + m.split(":")[0][:40])
    m = C.dict_mismatch(d_frame, d_body if False else {k: v for k, v in exp.items()}, skip=("meter_datetime",))
    if m:
        fail(f"frame and body disagree beyond the clock: {m}", sig="frame-vs-body")
    regs = [v for _n, k, v in items if k == "reg"]
    distinct = len(set(regs)) == len(regs)
    big = any(v >= 2**31 for v in regs)
    classes = [f"layout:{layout}", f"prelude:{prelude}", "apdu:" + ("null" if apdu_dt is None else ("tagged" if tagged else "untagged"))]
    if has_clock and apdu_dt is not None:
        classes.append("list-clock-vs-apdu-clock")
    return Info(nontrivial=distinct and big, classes=tuple(classes), sample={"layout": layout, "body": body.hex()[:120]})


def interleave_oracle(case) -> Info:
    """Two decodes of different lists on two threads, the first paused at its k-th line inside han/ while the second runs to
    completion (the harness owns the schedule): both results must be what each list says."""
    from vlib import interleave

    m_a, m_b, frac = case
    _build = lambda m: C.kaifa_body(m[0], [tuple(i) for i in m[1]])
    body_a, exp_a = _build(m_a)
    body_b, exp_b = _build(m_b)
    total = interleave.count_han_lines(lambda: kaifa.decode_notification_body(body_a))
    k = max(1, int(total * frac / 1000))
    res_a, res_b, reached = interleave.run_interleaved(lambda: kaifa.decode_notification_body(body_a), lambda: kaifa.decode_notification_body(body_b), k)
    for who, res, exp_, body_ in (("paused", res_a, exp_a, body_a), ("interleaving", res_b, exp_b, body_b)):
        if isinstance(res, BaseException):
            fail(f"{who} decode raised {type(res).__name__}: {res} (other decode ran while the first was paused at han line event {k} of {total})", sig="interleaved-raise")
        mm = C.dict_mismatch(res, exp_)
        if mm:
            fail(f"{who} decode, other decode run while the first was paused at han line event {k} of {total}: {mm}; body {body_.hex()[:200]}", sig="interleaved-threads")
    return Info(nontrivial=reached, classes=("paused-mid-decode" if reached else "finished-before-pause",))


interleave_st = st.tuples(C.kaifa_list_st(), C.kaifa_list_st(), st.integers(1, 999))


def build() -> Check:
    return Check(
        pid="C08",
        level="exploration",
        rule=(
            "Kaifa lists from a hand-written encoder: the five positional layouts (1, 9, 13, 14, 18 bare values) with every register any u32 "
            "(boundaries forced), printable-ASCII identification strings, APDU date-time tagged or untagged; the Swedish OBIS-tagged layout (18 "
            "OBIS elements incl. clock) with APDU date-time null or present. Oracle: expected dictionary by position / OBIS code - currents == "
            "reg/1000, voltages == reg/10 (correctly rounded quotient), powers and energies == reg, texts verbatim, manufacturer 'Kaifa', exact "
            "key set; frame clock = APDU date-time unless the list has its own clock element; frame and body agree on every other key. "
            "Non-trivial = all registers pairwise distinct (a swapped position cannot cancel) and >=1 register >= 2^31. Distinct = case hash."
        ),
        assumptions=[
            "Every payload is decoded twice; the caller modifies the first returned dictionary before the second call (results must not be shared objects).",
            "Before each decode a drawn prelude lets another decoder (or all) process genuine messages in the same process: decoders must not depend on what was decoded before.",
            "Identification strings are printable ASCII (1..24 chars): a 12-octet string of control characters can legitimately parse as a date-time in that position.",
            "Positional layouts always carry an APDU date-time (as every capture does); the OBIS-tagged layout always carries its clock element.",
        ],
        clauses=[HypClause("thread-interleavings", interleave_st, interleave_oracle, quick=250, thorough=6000, doc="decode A paused at a drawn line inside han/ while decode B runs on another thread"), HypClause("lists", st.tuples(C.kaifa_list_st(), st.sampled_from(PRELUDES)).map(lambda t: tuple(t[0]) + (t[1],)), oracle, quick=6000, thorough=300000)],
    )
