"""OBIS C.D.E -> common field name, typed into the harness from the NVE/NEK HAN port and Swedish (Energiforetagen)
HAN documents (OBIS code list) - deliberately NOT imported from han.obis_map, so a swapped name there is caught."""

NAME_OF = {
    "0.2.129": "list_ver_id",
    "96.1.0": "meter_id",
    "0.0.5": "meter_id",
    "96.1.7": "meter_type",
    "96.1.1": "meter_type",
    "1.0.0": "meter_datetime",
    "1.7.0": "active_power_import",
    "2.7.0": "active_power_export",
    "3.7.0": "reactive_power_import",
    "4.7.0": "reactive_power_export",
    "21.7.0": "active_power_import_l1",
    "41.7.0": "active_power_import_l2",
    "61.7.0": "active_power_import_l3",
    "22.7.0": "active_power_export_l1",
    "42.7.0": "active_power_export_l2",
    "62.7.0": "active_power_export_l3",
    "23.7.0": "reactive_power_import_l1",
    "43.7.0": "reactive_power_import_l2",
    "63.7.0": "reactive_power_import_l3",
    "24.7.0": "reactive_power_export_l1",
    "44.7.0": "reactive_power_export_l2",
    "64.7.0": "reactive_power_export_l3",
    "31.7.0": "current_l1",
    "51.7.0": "current_l2",
    "71.7.0": "current_l3",
    "32.7.0": "voltage_l1",
    "52.7.0": "voltage_l2",
    "72.7.0": "voltage_l3",
    "1.8.0": "active_power_import_total",
    "2.8.0": "active_power_export_total",
    "3.8.0": "reactive_power_import_total",
    "4.8.0": "reactive_power_export_total",
}


def name_of(cde: str) -> str:
    return NAME_OF.get(cde, cde)
