"""Bit-serial reference implementations of the two checksums (written from the standards, no tables).

FCS-16 (RFC 1662 appendix C / ISO 13239): generator x^16+x^12+x^5+1, bits processed LSB first
(reflected polynomial 0x8408), register initialised to 0xFFFF, result complemented, transmitted low octet first.
CRC-16/ARC (P1): polynomial 0xA001 reflected, initial value 0, no final xor.
"""


def fcs_step(reg: int, octet: int) -> int:
    for i in range(8):
        bit = (octet >> i) & 1
        if (reg ^ bit) & 1:
            reg = (reg >> 1) ^ 0x8408
        else:
            reg >>= 1
    return reg


def fcs_register(data: bytes, reg: int = 0xFFFF) -> int:
    for octet in data:
        reg = fcs_step(reg, octet)
    return reg


def fcs16(data: bytes) -> int:
    """The FCS value (complemented register)."""
    return fcs_register(data) ^ 0xFFFF


def fcs16_octets(data: bytes) -> bytes:
    """FCS as transmitted: low octet first."""
    v = fcs16(data)
    return bytes((v & 0xFF, v >> 8))


def crc16_arc(data: bytes) -> int:
    reg = 0
    for octet in data:
        for i in range(8):
            bit = (octet >> i) & 1
            if (reg ^ bit) & 1:
                reg = (reg >> 1) ^ 0xA001
            else:
                reg >>= 1
    return reg
