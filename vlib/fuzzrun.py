"""Run atheris campaigns (fuzz/target.py) in parallel subprocesses and collect re-confirmed violations."""
from __future__ import annotations

import glob
import json
import os
import re
import shutil
import subprocess
import sys
import tempfile

from vlib.runner import VERIF_DIR, Violation, dec


def available() -> bool:
    try:
        r = subprocess.run([sys.executable, "-c", "import atheris"], capture_output=True, timeout=60, env=os.environ)
        return r.returncode == 0
    except Exception:  # noqa: BLE001
        return False


def start_campaigns(pid: str, nprocs: int, runs: int, seed: int, max_len: int):
    """Start the campaign subprocesses (they run while the Hypothesis workers do); finish with finish_campaigns()."""
    if not available():
        return None
    root = tempfile.mkdtemp(prefix="verif-fuzz-")
    procs = []
    for i in range(nprocs):
        out = os.path.join(root, f"c{i}")
        os.makedirs(out)
        mode = "empty" if i % 2 == 0 else "fixtures"  # both an empty corpus and valid seeds: they can behave very differently
        cmd = [sys.executable, os.path.join(VERIF_DIR, "fuzz", "target.py"), pid, out, mode, f"-runs={runs}", f"-seed={seed * 1000 + i + 1}", f"-max_len={max_len}", f"-artifact_prefix={out}/", "-print_final_stats=0"]
        log = open(os.path.join(out, "log.txt"), "w")
        procs.append((out, mode, subprocess.Popen(cmd, stdout=log, stderr=subprocess.STDOUT, text=True, cwd=VERIF_DIR), log))
    return {"root": root, "procs": procs}


def finish_campaigns(handle, oracle, timeout_s: int):
    res = {"executions": 0, "campaigns": 0, "violations": [], "unconfirmed": 0, "notes": []}
    if handle is None:
        res["notes"].append("atheris not importable: coverage-guided campaign skipped")
        return res
    try:
        for out, mode, p, log in handle["procs"]:
            try:
                p.wait(timeout=timeout_s)
            except subprocess.TimeoutExpired:
                p.kill()
                p.wait()
                res["notes"].append(f"campaign ({mode}) stopped at the {timeout_s}s wall-clock budget (inconclusive, not a violation)")
            log.close()
            text = open(os.path.join(out, "log.txt"), errors="replace").read()
            res["campaigns"] += 1
            m = re.findall(r"Done (\d+) runs", text or "")
            if m:
                res["executions"] += int(m[-1])
            else:
                m2 = re.findall(r"^#(\d+)\s", text or "", flags=re.M)
                if m2:
                    res["executions"] += int(m2[-1])
            for vf in sorted(glob.glob(os.path.join(out, "violation-*.json"))):
                doc = json.load(open(vf))
                try:
                    oracle(dec(doc["case"]))
                    res["unconfirmed"] += 1
                except Violation as v:
                    res["violations"].append((doc["case"], v.detail, v.sig))
    finally:
        shutil.rmtree(handle["root"], ignore_errors=True)
    return res


def run_campaigns(pid: str, oracle, nprocs: int, runs: int, seed: int, max_len: int, timeout_s: int):
    """Returns dict(executions, campaigns, violations=[(case_enc, detail, sig)], unconfirmed, notes)."""
    return finish_campaigns(start_campaigns(pid, nprocs, runs, seed, max_len), oracle, timeout_s)
    res = {"executions": 0, "campaigns": 0, "violations": [], "unconfirmed": 0, "notes": []}
    procs = []
    root = tempfile.mkdtemp(prefix="verif-fuzz-")
    try:
        for i in range(nprocs):
            out = os.path.join(root, f"c{i}")
            os.makedirs(out)
            mode = "empty" if i % 2 == 0 else "fixtures"  # both an empty corpus and valid seeds: they can behave very differently
            cmd = [sys.executable, os.path.join(VERIF_DIR, "fuzz", "target.py"), pid, out, mode, f"-runs={runs}", f"-seed={seed * 1000 + i + 1}", f"-max_len={max_len}", f"-artifact_prefix={out}/", "-print_final_stats=0"]
            procs.append((out, mode, subprocess.Popen(cmd, stdout=subprocess.PIPE, stderr=subprocess.STDOUT, text=True, cwd=VERIF_DIR)))
        for out, mode, p in procs:
            try:
                text, _ = p.communicate(timeout=timeout_s)
            except subprocess.TimeoutExpired:
                p.kill()
                text, _ = p.communicate()
                res["notes"].append(f"campaign ({mode}) stopped at the {timeout_s}s wall-clock budget (inconclusive, not a violation)")
            res["campaigns"] += 1
            m = re.findall(r"Done (\d+) runs", text or "")
            if m:
                res["executions"] += int(m[-1])
            else:
                m2 = re.findall(r"^#(\d+)\s", text or "", flags=re.M)
                if m2:
                    res["executions"] += int(m2[-1])
            for vf in sorted(glob.glob(os.path.join(out, "violation-*.json"))):
                doc = json.load(open(vf))
                # the saved input is the reproducible unit: re-confirm with the deterministic oracle before reporting
                try:
                    oracle(dec(doc["case"]))
                    res["unconfirmed"] += 1
                except Violation as v:
                    res["violations"].append((doc["case"], v.detail, v.sig))
    finally:
        shutil.rmtree(root, ignore_errors=True)
    return res
