"""Constructor variants the harness does not know about.

A reader that somebody else in the process built with ANY constructor arguments must not change what another reader delivers.
The checks know the documented parameters; a change may add more (named keywords, or **keywords validated against a class-level
table). This module lists keyword sets for such parameters, so that a bystander instance can be built with them. On a tree whose
constructor has only the known parameters the list is empty and nothing is exercised.
"""
import inspect

_INTS = [1, 16, 64, 300]


def variants(cls, known):
    try:
        sig = inspect.signature(cls.__init__)
    except (TypeError, ValueError):
        return []
    out = []
    var_kw = False
    for name, p in list(sig.parameters.items())[1:]:
        if p.kind is inspect.Parameter.VAR_KEYWORD:
            var_kw = True
            continue
        if p.kind is inspect.Parameter.VAR_POSITIONAL or name in known:
            continue
        d = p.default
        if isinstance(d, bool) or p.annotation in (bool, "bool"):
            out += [{name: True}, {name: False}]
        elif d is None or d is inspect.Parameter.empty or isinstance(d, (int, float)):
            out += [{name: v} for v in _INTS]
    if var_kw:
        names = set()
        for k, v in vars(cls).items():
            if isinstance(v, dict) and v and all(isinstance(x, str) for x in v):
                names.update(v)
            elif k.isupper() and isinstance(v, int) and not isinstance(v, bool):
                names.add(k.lower())
        out += [{n: v} for n in sorted(names) for v in _INTS]
    return out


def build_bystander(cls, kwargs, *args):
    """Build cls(*args, **kwargs); None if the constructor rejects the arguments."""
    try:
        return cls(*args, **kwargs)
    except (TypeError, ValueError):
        return None
