"""The harness owns the wall clock: time.monotonic / time.time / time.perf_counter (and their _ns variants) are replaced
by a virtual clock that only moves when the harness says so (gaps between calls are part of the generated history)."""
from __future__ import annotations

import sys
import time as _time

_NAMES = ["monotonic", "time", "perf_counter", "monotonic_ns", "time_ns", "perf_counter_ns"]
_real = {n: getattr(_time, n) for n in _NAMES}


class FakeClock:
    def __init__(self, start: float = 1_700_000_000.0, source=None):
        self._now = start
        self._source = source  # optional callable giving seconds since start (e.g. a virtual event loop's time())
        self._start = start
        self._patched = []

    @property
    def now(self):
        return self._start + self._source() if self._source is not None else self._now

    @now.setter
    def now(self, v):
        self._now = v

    def advance(self, seconds: float):
        self.now += seconds

    def _make(self, name):
        if name.endswith("_ns"):
            return lambda: int(self.now * 1e9)
        return lambda: self.now

    def __enter__(self):
        fakes = {n: self._make(n) for n in _NAMES}
        for n in _NAMES:
            setattr(_time, n, fakes[n])
        # names bound by 'from time import monotonic' inside the code under test
        for mname, mod in list(sys.modules.items()):
            if mname == "han" or mname.startswith("han."):
                for attr, val in list(vars(mod).items()):
                    for n in _NAMES:
                        if val is _real[n]:
                            self._patched.append((mod, attr, val))
                            setattr(mod, attr, fakes[n])
        return self

    def __exit__(self, *exc):
        for n in _NAMES:
            setattr(_time, n, _real[n])
        for mod, attr, val in self._patched:
            setattr(mod, attr, val)
        self._patched.clear()
        return False


def gaps_for(n_calls: int, pattern, seed: int):
    """Seconds of virtual time that pass before each call. pattern: 'none' | 'short' | 'long' | 'mixed'."""
    import random

    if pattern == "none":
        return [0.0] * n_calls
    rnd = random.Random(seed)
    if pattern == "short":
        return [rnd.choice([0.0, 0.001, 0.2, 0.9]) for _ in range(n_calls)]
    if pattern == "long":
        return [rnd.choice([1.6, 3.5, 11.0, 61.0, 3600.0]) for _ in range(n_calls)]
    return [rnd.choice([0.0, 0.0, 0.0, 0.5, 2.0, 5.0, 30.0, 86400.0]) for _ in range(n_calls)]
