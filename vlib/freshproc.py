"""Run a small program in a FRESH interpreter (same sys.path / VERIF_REPO) and return the JSON value it prints.

Used for the 'first operation of a process' dimension: lazily built tables and caches must not make the result of an operation
depend on which other operation of the library ran before it in the same process.
"""
import json
import os
import subprocess
import sys


def fresh_eval(program: str, timeout=900):
    """program must print one line 'FRESH-RESULT <json>'. Returns (value, None) or (None, error text)."""
    r = subprocess.run([sys.executable, "-c", program], capture_output=True, text=True, timeout=timeout, env=os.environ)
    for line in r.stdout.splitlines():
        if line.startswith("FRESH-RESULT "):
            return json.loads(line[len("FRESH-RESULT "):]), None
    return None, f"rc={r.returncode} stderr tail: {r.stderr[-600:]}"
