"""Generators for HDLC frames, defective frames, streams and splittings (Hypothesis strategies).

Large payloads are expanded from a drawn (mode, length, seed) triple by a deterministic PRNG so they do not
exhaust Hypothesis's per-example entropy budget; the result is a pure function of the drawn values.
"""
from __future__ import annotations

import random

from hypothesis import strategies as st

from vlib.ref_fcs import fcs16_octets
from vlib.ref_hdlc import ESC, FLAG, stuff

CONFIGS = [(False, False), (False, True), (True, False), (True, True)]  # (octet stuffing, abort detection)
config_st = st.sampled_from(CONFIGS)

DENSE = bytes([0x7E, 0x7D, 0x5E, 0x5D, 0x00, 0xFF, 0xA0, 0x7E, 0x7D, 0x01, 0x02])


# ---------------------------------------------------------------------------------- frames


def build_frame(ftype: int, seg: int, dest: bytes, src: bytes, control: int, info, length_override=None) -> bytes:
    """info None -> header-only frame (single check sequence); bytes -> HCS + information + FCS."""
    total = 2 + len(dest) + len(src) + 1 + 2 + (0 if info is None else len(info) + 2)
    length = total if length_override is None else length_override
    fmt = ((ftype & 0xF) << 12) | ((seg & 1) << 11) | (length & 0x7FF)
    hdr = fmt.to_bytes(2, "big") + dest + src + bytes([control])
    if info is None:
        return hdr + fcs16_octets(hdr)
    body = hdr + fcs16_octets(hdr) + info
    return body + fcs16_octets(body)


_EMBEDDED = None


def _embedded_frames():
    global _EMBEDDED
    if _EMBEDDED is None:
        _EMBEDDED = [build_frame(0xA, 0, b"\x03", b"\x21", 0x13, b"\x01\x02\x03"), build_frame(0xA, 0, b"\x01", b"\x02\x01", 0x10, None), build_frame(0xA, 1, b"\x41", b"\x03", 0x30, b"hello")]
    return _EMBEDDED


def expand_payload(mode: str, length: int, seed: int, literal: bytes = b"") -> bytes:
    if mode == "literal":
        return literal
    if mode == "embedded":
        # an information field that itself contains complete, valid frames between flags (a frame in a frame)
        rnd0 = random.Random(seed)
        parts = [rnd0.randbytes(rnd0.randrange(0, 6))]
        for _ in range(1 + seed % 2):
            parts += [bytes([FLAG]), rnd0.choice(_embedded_frames()), bytes([FLAG]), rnd0.randbytes(rnd0.randrange(0, 6))]
        return b"".join(parts)
    rnd = random.Random(seed)
    if mode == "dense":
        return bytes(rnd.choice(DENSE) for _ in range(length))
    if mode == "zero":
        return bytes(length)
    if mode == "ascii":
        return bytes(rnd.choice(b"0123456789ABCDEF(). kWh*-:") for _ in range(length))
    return rnd.randbytes(length)


@st.composite
def address_st(draw, avoid_flag=False, long=False):
    n = draw(st.sampled_from([1, 1, 2, 2, 3, 4] + ([5, 6, 8] if long else [])))
    octs = [draw(st.integers(0, 127)) * 2 for _ in range(n - 1)] + [draw(st.integers(0, 127)) * 2 + 1]
    if avoid_flag:
        octs = [0x7C if o == FLAG else o for o in octs]
    return bytes(octs)


MAX_INFO = 2038

_len_classes = st.one_of(
    st.sampled_from([0, 1, 2, 3]),
    st.integers(0, 40),
    st.integers(0, 40),
    st.integers(41, 420),
    st.integers(1000, 2047),
)


@st.composite
def payload_spec_st(draw, big=True):
    mode = draw(st.sampled_from(["literal", "literal", "dense", "random", "dense", "ascii", "zero", "embedded"]))
    if mode == "literal":
        lit = draw(st.one_of(st.binary(min_size=0, max_size=24), st.lists(st.sampled_from(list(DENSE)), max_size=12).map(bytes)))
        return ("literal", len(lit), 0, lit)
    length = draw(_len_classes if big else st.one_of(st.integers(0, 60), st.integers(0, 300)))
    return (mode, length, draw(st.integers(0, 2**32 - 1)), b"")


@st.composite
def frame_spec_st(draw, big=True, header_only_weight=1, long_addr=False):
    """A well-formed frame specification: dict(ftype, seg, dest, src, control, info(None|bytes)).
    long_addr: also address fields of 5..8 octets (ISO 13239 allows any extension; C02 limits itself to 1..4)."""
    if draw(st.integers(0, 24)) == 24:
        return dict(draw(st.sampled_from(SPECIAL_SPECS)))  # check sequences equal to 00 00
    dest = draw(address_st(long=long_addr))
    src = draw(address_st(long=long_addr))
    ftype = draw(st.sampled_from([0xA, 0xA, 0xA, 0x0, 0x7, 0xF, 0x3]))
    seg = draw(st.sampled_from([0, 0, 1]))
    control = draw(st.one_of(st.sampled_from([0x10, 0x13, 0x7E, 0x7D, 0x00, 0xFF]), st.integers(0, 255)))
    kind = draw(st.sampled_from(["info"] * 6 + ["header-only"] * header_only_weight))
    if kind == "header-only":
        info = None
    else:
        mode, length, seed, lit = draw(payload_spec_st(big=big))
        room = 2047 - (2 + len(dest) + len(src) + 1 + 2 + 2)
        if mode == "literal":
            info = lit[:room]
        else:
            info = expand_payload(mode, min(length, room), seed)
        if big and draw(st.integers(0, 30)) == 30:
            info = expand_payload("dense" if mode == "dense" else "random", room, seed)  # exactly the 2047-octet maximum
    spec = {"ftype": ftype, "seg": seg, "dest": dest, "src": src, "control": control, "info": info}
    if info and len(info) >= 2 and draw(st.integers(0, 11)) == 11:
        # the frame's very last octet (second FCS octet) is a flag or an escape octet - also for 2047-octet frames
        spec = force_last_octet(spec, draw(st.sampled_from([FLAG, ESC]))) or spec
    return spec


# Frames whose check sequences have special values (found by a one-off search, verified by build_frame at import):
# header check sequence 00 00 with a 4-octet information field; header-only frame with FCS 00 00; information field giving FCS 00 00.
SPECIAL_SPECS = [
    {"ftype": 0xA, "seg": 0, "dest": b"\x01", "src": b"\x1e\x01", "control": 162, "info": b"abcd"},
    {"ftype": 0xA, "seg": 0, "dest": b"\x05", "src": b"\xd2\x01", "control": 201, "info": b"\x00\x01\x02\x03"},
    {"ftype": 0xA, "seg": 0, "dest": b"\x0b", "src": b"\xf0\x01", "control": 81, "info": b"~}^]"},
    {"ftype": 0xA, "seg": 0, "dest": b"\x01", "src": b"$\x01", "control": 234, "info": None},
    {"ftype": 0xA, "seg": 0, "dest": b"\x05", "src": b"\xe8\x01", "control": 129, "info": None},
    {"ftype": 0xA, "seg": 0, "dest": b"\x01", "src": b"\x02\x01", "control": 0x10, "info": b"\xe6\x00IM"},
    {"ftype": 0xA, "seg": 0, "dest": b"\x01", "src": b"\x02\x01", "control": 0x10, "info": b"\xe6\x01\xc0\\"},
]


def force_last_octet(spec, target: int):
    """Vary the last two information octets until the frame's last octet (second FCS octet) equals target. Returns spec' or None."""
    from vlib.ref_fcs import fcs_register, fcs_step

    info = spec["info"]
    if not info or len(info) < 2:
        return None
    frame = frame_from_spec(spec)
    reg0 = fcs_register(frame[:-4])  # everything before the two octets that are varied
    for x in range(65536):
        r = fcs_step(fcs_step(reg0, x >> 8), x & 0xFF) ^ 0xFFFF
        if (r >> 8) == target:
            out = dict(spec)
            out["info"] = info[:-2] + bytes([x >> 8, x & 0xFF])
            assert frame_from_spec(out)[-1] == target
            return out
    return None


def frame_from_spec(spec) -> bytes:
    return build_frame(spec["ftype"], spec["seg"], spec["dest"], spec["src"], spec["control"], spec["info"])


def header_len(spec) -> int:
    """Octets up to and including the header check sequence."""
    return 2 + len(spec["dest"]) + len(spec["src"]) + 1 + 2


def repair_for_config(spec, stuffing: bool, abort: bool):
    """Return (spec', frame octets) inside the C02 domain of the configuration - by construction, not rejection.

    stuffing on  : no constraint (the frame is stuffed on the wire).
    stuffing off : no flag octet in the header octets (format .. HCS; the whole frame when header-only); with abort
                   detection also no escape octet directly before a flag octet or the frame end.
    """
    spec = dict(spec)
    if stuffing:
        return spec, frame_from_spec(spec)
    spec["dest"] = bytes(0x7C if o == FLAG else o for o in spec["dest"])
    spec["src"] = bytes(0x7C if o == FLAG else o for o in spec["src"])
    info = spec["info"]
    for _ in range(4000):
        b = frame_from_spec(spec)
        hl = header_len(spec)
        bad = None
        if FLAG in b[:hl]:
            bad = ("hdr", b.index(FLAG, 0, hl))
        elif abort:
            for i, o in enumerate(b):
                if o == ESC and (i + 1 == len(b) or b[i + 1] == FLAG):
                    bad = ("abort", i)
                    break
        if bad is None:
            return spec, b
        kind, i = bad
        if kind == "hdr" and i == 0:
            spec["ftype"] = 0xA
        elif kind == "hdr" and i == 1:
            # low octet of the length is 0x7E: change the length by one octet
            if info is None:
                spec["src"] = bytes([0x02]) + spec["src"] if len(spec["src"]) < 4 else spec["src"][1:]
            elif len(b) < 2047:
                info = info + b"\x00"
            else:
                info = info[:-1]
            spec["info"] = info
        elif kind == "hdr":
            spec["control"] = (spec["control"] + 1) % 256
        else:  # abort pattern at octet i
            if info is not None and hl <= i < hl + len(info):
                j = i - hl
                info = info[:j] + b"\x7c" + info[j + 1 :]
                spec["info"] = info
            elif i < hl:
                spec["control"] = (spec["control"] + 1) % 256
            else:  # in the FCS: perturb the last information octet / the control field
                if info:
                    info = info[:-1] + bytes([(info[-1] + 1) % 256])
                    spec["info"] = info
                else:
                    spec["control"] = (spec["control"] + 1) % 256
    raise AssertionError("repair_for_config did not converge")


def wire(frame: bytes, stuffing: bool, extra=frozenset()) -> bytes:
    return stuff(frame, extra) if stuffing else frame


# ---------------------------------------------------------------------------------- splittings


@st.composite
def cuts_st(draw):
    """A splitting description, resolved against the stream length by split()."""
    kind = draw(st.sampled_from(["none", "bytewise", "single", "multi", "multi", "fixed", "tail-bytewise"]))
    if kind == "single":
        return ("single", draw(st.integers(0, 10**6)))
    if kind == "multi":
        return ("multi", tuple(draw(st.lists(st.integers(0, 10**6), min_size=1, max_size=8))))
    if kind == "fixed":
        return ("fixed", draw(st.sampled_from([2, 3, 5, 7, 8, 16, 64, 100, 512, 1000, 2048, 4096])), draw(st.integers(0, 4095)))
    return (kind,)


def split(stream: bytes, cuts) -> list:
    n = len(stream)
    kind = cuts[0]
    if kind == "none" or n == 0:
        return [stream]
    if kind == "bytewise":
        return [stream[i : i + 1] for i in range(n)]
    if kind == "tail-bytewise":  # one big chunk then octet by octet (state carried over after a long call)
        k = n * 2 // 3
        return [stream[:k]] + [stream[i : i + 1] for i in range(k, n)]
    if kind == "single":
        k = cuts[1] % (n + 1)
        return [stream[:k], stream[k:]]
    if kind == "multi":
        pts = sorted({c % (n + 1) for c in cuts[1]})
        out, prev = [], 0
        for p in pts:
            out.append(stream[prev:p])
            prev = p
        out.append(stream[prev:])
        return out
    if kind == "fixed":
        size, off = cuts[1], cuts[2] % cuts[1]
        out = [stream[:off]] if off else []
        out += [stream[i : i + size] for i in range(off, n, size)]
        return out
    if kind == "at":  # explicit cut positions (used by enumerations / replays)
        out, prev = [], 0
        for p in cuts[1]:
            out.append(stream[prev:p])
            prev = p
        out.append(stream[prev:])
        return out
    raise ValueError(kind)


def cut_points(stream: bytes, cuts) -> set:
    pos, out = 0, set()
    for ch in split(stream, cuts)[:-1]:
        pos += len(ch)
        out.add(pos)
    return out


# ---------------------------------------------------------------------------------- defects and noise

noise_octet = st.one_of(st.sampled_from([0x7E, 0x7D, 0x5E, 0x5D, 0xA0, 0xA0, 0x08, 0x0C, 0x01, 0x02, 0x10, 0x00, 0xFF, 0x21, 0x03]), st.integers(0, 255))
noise_st = st.lists(noise_octet, min_size=0, max_size=24).map(bytes)
noise_noflag_st = st.lists(noise_octet.filter(lambda o: o != FLAG), min_size=0, max_size=24).map(bytes)


@st.composite
def defect_frame_st(draw):
    """(kind, octets): a frame with one injected defect. Octets are the un-stuffed frame contents."""
    spec = draw(frame_spec_st(big=False, header_only_weight=2, long_addr=True))
    good = frame_from_spec(spec)
    hl = header_len(spec)
    kind = draw(st.sampled_from(["bitflip", "truncate", "truncate-after-hcs", "extra", "wronglen", "wronglen", "drop-last", "swap-fcs", "bad-hcs-good-fcs"]))
    if kind == "bad-hcs-good-fcs":
        # header check sequence wrong, but length field and FCS (recomputed over the octets as sent) are right:
        # by C01's definition this frame IS valid
        if spec["info"] is None:
            kind = "wronglen"
        else:
            b = bytearray(good[:-2])
            bit = draw(st.integers(0, 15))
            b[hl - 2 + bit // 8] ^= 1 << (bit % 8)
            return kind, bytes(b) + fcs16_octets(bytes(b))
    if kind == "bitflip":
        bit = draw(st.integers(0, len(good) * 8 - 1))
        b = bytearray(good)
        b[bit // 8] ^= 1 << (bit % 8)
        return kind, bytes(b)
    if kind == "truncate":
        return kind, good[: draw(st.integers(0, len(good) - 1))]
    if kind == "truncate-after-hcs":
        return kind, good[:hl]  # running FCS is 'good' here; the length field says more octets follow
    if kind == "extra":
        return kind, good + draw(st.lists(noise_octet, min_size=1, max_size=6).map(bytes))
    if kind == "wronglen":
        true_len = len(good)
        delta = draw(st.sampled_from([-2, -1, 1, 2, 5, 256, -256, 1024]))
        wrong = (true_len + delta) % 2048
        if wrong == true_len:
            wrong = (true_len + 1) % 2048
        return kind, build_frame(spec["ftype"], spec["seg"], spec["dest"], spec["src"], spec["control"], spec["info"], length_override=wrong)
    if kind == "drop-last":
        return kind, good[:-1]
    return kind, good[:-2] + good[-2:][::-1]


for _s in SPECIAL_SPECS[:3]:
    assert frame_from_spec(_s)[header_len(_s) - 2 : header_len(_s)] == b"\x00\x00"
for _s in SPECIAL_SPECS[3:]:
    assert frame_from_spec(_s)[-2:] == b"\x00\x00"
