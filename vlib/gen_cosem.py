"""Hand-written COSEM encoders and list builders (Aidon, Kaifa, Kamstrup) returning (bytes, expected dict).

Written from the DLMS/COSEM blue book data-type encodings and the NVE/NEK (Norway) and Energiforetagen (Sweden) HAN
documents; nothing here imports the code under test.  Expected numeric values are exact rationals (fractions.Fraction)
wrapped in Num so the comparison rule (exact / correctly rounded / stated tolerance) is explicit.
"""
from __future__ import annotations

import datetime as _dt
from dataclasses import dataclass
from fractions import Fraction

from hypothesis import strategies as st

from vlib.names import name_of

# ---- type tags ---------------------------------------------------------------------------------------------
T_NULL, T_ARRAY, T_STRUCT, T_U32, T_OCTET, T_VISIBLE, T_I8, T_I16, T_U16, T_ENUM = 0, 1, 2, 6, 9, 10, 15, 16, 18, 22
UNITS = {"W": 27, "var": 29, "Wh": 30, "varh": 32, "A": 33, "V": 35}


def u32(v):
    return bytes([T_U32]) + int(v).to_bytes(4, "big")


def u16(v):
    return bytes([T_U16]) + int(v).to_bytes(2, "big")


def i16(v):
    return bytes([T_I16]) + int(v).to_bytes(2, "big", signed=True)


def i8(v):
    return bytes([T_I8]) + int(v).to_bytes(1, "big", signed=True)


def visible(s: str):
    b = s.encode("ascii")
    return bytes([T_VISIBLE, len(b)]) + b


def octet_text(s: str):
    b = s.encode("ascii")
    return bytes([T_OCTET, len(b)]) + b


def obis6(code: str):
    parts = [int(p) for p in code.split(".")]
    assert len(parts) == 6
    return bytes([T_OCTET, 6] + parts)


def scaler_unit(exp: int, unit: int):
    return bytes([T_STRUCT, 2]) + i8(exp) + bytes([T_ENUM, unit])


# ---- date-time -----------------------------------------------------------------------------------------------

UNSPEC_DEV = 0x8000


def dt_octets(spec) -> bytes:
    """12 octets of a COSEM date-time. spec = (year, month, day, dow, hour, minute, second, hundredths, deviation, status)."""
    y, mo, d, dow, h, mi, s, hs, dev, status = spec
    devb = b"\x80\x00" if dev == UNSPEC_DEV else int(dev).to_bytes(2, "big", signed=True)
    return y.to_bytes(2, "big") + bytes([mo, d, dow, h, mi, s, hs]) + devb + bytes([status])


def dt_len_prefixed(spec) -> bytes:
    return b"\x0c" + dt_octets(spec)


def dt_tagged(spec) -> bytes:
    return bytes([T_OCTET]) + dt_len_prefixed(spec)


def dt_expected(spec) -> _dt.datetime:
    y, mo, d, _dow, h, mi, s, hs, dev, _status = spec
    tz = None if dev == UNSPEC_DEV else _dt.timezone(_dt.timedelta(minutes=-dev))
    return _dt.datetime(y, mo, d, h, mi, s, 0 if hs == 0xFF else hs * 10000, tz)


def same_dt(got, exp):
    """None if equal in civil fields, microseconds and offset; else a description. (Aware datetimes compare by instant,
    which would hide a shifted wall time, so fields and offset are compared separately.)"""
    if not isinstance(got, _dt.datetime):
        return f"not a datetime: {got!r}"
    if got.replace(tzinfo=None) != exp.replace(tzinfo=None):
        return f"civil fields {got.replace(tzinfo=None).isoformat()} != {exp.replace(tzinfo=None).isoformat()}"
    if (got.tzinfo is None) != (exp.tzinfo is None):
        return f"tzinfo {got.tzinfo!r} but expected {exp.tzinfo!r}"
    if got.tzinfo is not None and got.utcoffset() != exp.utcoffset():
        return f"utcoffset {got.utcoffset()} != {exp.utcoffset()}"
    return None


@st.composite
def dt_spec_st(draw):
    d = draw(st.datetimes(min_value=_dt.datetime(1, 1, 1), max_value=_dt.datetime(9999, 12, 31, 23, 59, 59)))
    if draw(st.integers(0, 7)) == 0:
        d = draw(st.sampled_from([_dt.datetime(1, 1, 1, 0, 0, 0), _dt.datetime(9999, 12, 31, 23, 59, 59), _dt.datetime(2020, 2, 29, 12, 0, 0), _dt.datetime(2021, 12, 31, 23, 59, 59)]))
    hs = draw(st.sampled_from([0, 0xFF, 0xFF, 99, 1, 50]) | st.integers(0, 99))
    dev = draw(st.sampled_from([UNSPEC_DEV, UNSPEC_DEV, 0, -60, 60, -120, 120, 720, -720, 1, -1, 719, -719]) | st.integers(-720, 720))
    status = draw(st.sampled_from([0, 0xFF, 0x80, 0x01, 0x0F]) | st.integers(0, 255))
    dow = draw(st.sampled_from([1, 7, 0xFF, 0]) | st.integers(0, 255))
    return (d.year, d.month, d.day, dow, d.hour, d.minute, d.second, hs, dev, status)


# ---- LLC / APDU wrapper ---------------------------------------------------------------------------------------


def llc_apdu(body: bytes, apdu_dt=None, tagged=False, invoke=0x40000000, llc=b"\xe6\xe7\x00") -> bytes:
    """apdu_dt None -> null-data; else a date-time spec, octet-string tagged (09 0C ..) or untagged (0C ..)."""
    if apdu_dt is None:
        dtb = b"\x00"
    else:
        dtb = dt_tagged(apdu_dt) if tagged else dt_len_prefixed(apdu_dt)
    return llc + b"\x0f" + int(invoke).to_bytes(4, "big") + dtb + body


# ---- expected numeric values -------------------------------------------------------------------------------------


@dataclass(frozen=True)
class Num:
    """Expected number: exact rational; rule 'exact' (== when integral else == correctly rounded double) or 'tol' (relative 4*2^-53)."""

    value: Fraction
    rule: str = "exact"


def num_mismatch(got, exp: Num):
    if isinstance(got, bool) or not isinstance(got, (int, float)):
        return f"not a number: {got!r}"
    v = exp.value
    if exp.rule == "exact":
        if v.denominator == 1:
            if got == v.numerator:
                return None
            if abs(v.numerator) > 2**53 and isinstance(got, float) and got == v.numerator / 1:
                return None  # an integral value too large for a double to hold exactly: the correctly rounded double is accepted
            return f"{got!r} != {v.numerator}"
        want = v.numerator / v.denominator  # true division of ints = correctly rounded double
        return None if got == want else f"{got!r} != {want!r} (correctly rounded {v})"
    # stated tolerance: 4 * 2^-53 relative
    if v == 0:
        return None if got == 0 else f"{got!r} != 0"
    err = abs(Fraction(got) - v) / abs(v)
    return None if err <= Fraction(4, 2**53) else f"{got!r} differs from {float(v)!r} by relative {float(err):.3g}"


def dict_mismatch(got, exp, skip=()):
    """Compare a decoded dictionary with the expected one (values: str | Num | datetime). None if equal."""
    if not isinstance(got, dict):
        return f"result is {type(got).__name__}, not dict"
    gk, ek = set(got) - set(skip), set(exp) - set(skip)
    if gk != ek:
        return f"keys differ: missing {sorted(ek - gk)}, unexpected {sorted(gk - ek)}"
    for k in sorted(ek):
        e, g = exp[k], got[k]
        if isinstance(e, Num):
            m = num_mismatch(g, e)
        elif isinstance(e, _dt.datetime):
            m = same_dt(g, e)
        else:
            m = None if (g == e and isinstance(g, str)) else f"{g!r} != {e!r}"
        if m:
            return f"{k}: {m}"
    return None


# ---- register strategies ---------------------------------------------------------------------------------------------


def reg_st(kind: str):
    if kind == "u32":
        # boundaries, and values whose octets mean something to another layer: '(' ')' '/' '!' LF, 7E/7D, COSEM tags, all-ASCII
        return st.sampled_from([0, 1, 2**31 - 1, 2**31, 2**32 - 1, 1000, 999, 123456789, 0x00280029, 0x28292829, 0x2F414243, 0x210D0A2F, 0x7E7E7E7E, 0x7D5E7D5D, 0x0A0D0A0D, 0x09060100, 0x02020F00, 0x30303030]) | st.integers(0, 2**32 - 1)
    if kind == "u16":
        return st.sampled_from([0, 1, 2**15 - 1, 2**15, 2**16 - 1, 2300]) | st.integers(0, 2**16 - 1)
    if kind == "i16":
        return st.sampled_from([0, 1, -1, 2**15 - 1, -(2**15), 13, -13]) | st.integers(-(2**15), 2**15 - 1)
    raise ValueError(kind)


def enc_reg(kind, v):
    return {"u32": u32, "u16": u16, "i16": i16}[kind](v)


text_st = st.text(alphabet=st.characters(min_codepoint=0x20, max_codepoint=0x7E), min_size=0, max_size=24)
# texts that look like something another layer understands (a P1 data line, an identification line, an end line), with the
# lengths 10 and 13 (whose length octet is LF / CR) represented
LAYER_TEXTS = ["1.8.0(123)", "1.8.0(1*kW)", "1-0:1.8.0(1)", "31.7.0(1*A)\r\n", "/ABC5x\r\n!\r\n", "!ABCD", "(1)(2)", "0.0(0)", "1.7.0(12345)", "2.8.0(00001*kWh)", "1.0.0(210222161900W)"]
_long_printable_st = st.tuples(st.sampled_from([127, 128, 129, 130, 131, 200, 255]) | st.integers(25, 255), st.integers(0, 2**31)).map(lambda t: "".join(__import__("random").Random(t[1]).choices("ABCDEFGHIJKLMNOPQRSTUVWXYZabcdefghijklmnopqrstuvwxyz0123456789 _-", k=t[0])))
text1_st = st.one_of(st.text(alphabet=st.characters(min_codepoint=0x20, max_codepoint=0x7E), min_size=1, max_size=24), st.text(alphabet=st.characters(min_codepoint=0x20, max_codepoint=0x7E), min_size=1, max_size=24), st.sampled_from(LAYER_TEXTS), _long_printable_st)
long_text_st = st.tuples(st.sampled_from([127, 128, 129, 130, 131, 200, 255]) | st.integers(25, 255), st.integers(0, 2**31)).map(lambda t: "".join(__import__("random").Random(t[1]).choices("ABCDEFGHIJKLMNOPQRSTUVWXYZabcdefghijklmnopqrstuvwxyz0123456789 _-", k=t[0])))
ascii_text_st = st.one_of(text_st, text_st, long_text_st, st.text(alphabet=st.characters(min_codepoint=0x00, max_codepoint=0x7F), min_size=0, max_size=24), text_st.map(lambda t: t[:20] + "\x00\x00"), st.sampled_from(LAYER_TEXTS))
small_reg_st = st.integers(0, 127) | st.sampled_from([41, 0x29, 0x21, 0x2F])  # registers whose octets are all 7-bit ASCII

# ============================================================================================================
# Aidon: array of structures {obis, value [, scaler-unit]}
# ============================================================================================================

# (obis, kind, default register type, default scaler, unit) in the order of NO list 3 three-phase / SE list
AIDON_TEXT = [("1.1.0.2.129.255", "AIDON_V0001"), ("0.0.96.1.0.255", "7359992892587665"), ("0.0.96.1.7.255", "6525")]
AIDON_REG = {
    "1.0.1.7.0.255": ("u32", 0, "W"),
    "1.0.2.7.0.255": ("u32", 0, "W"),
    "1.0.3.7.0.255": ("u32", 0, "var"),
    "1.0.4.7.0.255": ("u32", 0, "var"),
    "1.0.31.7.0.255": ("i16", -1, "A"),
    "1.0.51.7.0.255": ("i16", -1, "A"),
    "1.0.71.7.0.255": ("i16", -1, "A"),
    "1.0.32.7.0.255": ("u16", -1, "V"),
    "1.0.52.7.0.255": ("u16", -1, "V"),
    "1.0.72.7.0.255": ("u16", -1, "V"),
    "1.0.1.8.0.255": ("u32", 1, "Wh"),
    "1.0.2.8.0.255": ("u32", 1, "Wh"),
    "1.0.3.8.0.255": ("u32", 1, "varh"),
    "1.0.4.8.0.255": ("u32", 1, "varh"),
    # per-phase powers of the Swedish list
    "1.0.21.7.0.255": ("u32", 0, "W"),
    "1.0.22.7.0.255": ("u32", 0, "W"),
    "1.0.23.7.0.255": ("u32", 0, "var"),
    "1.0.24.7.0.255": ("u32", 0, "var"),
    "1.0.41.7.0.255": ("u32", 0, "W"),
    "1.0.42.7.0.255": ("u32", 0, "W"),
    "1.0.43.7.0.255": ("u32", 0, "var"),
    "1.0.44.7.0.255": ("u32", 0, "var"),
    "1.0.61.7.0.255": ("u32", 0, "W"),
    "1.0.62.7.0.255": ("u32", 0, "W"),
    "1.0.63.7.0.255": ("u32", 0, "var"),
    "1.0.64.7.0.255": ("u32", 0, "var"),
}
AIDON_CLOCK = "0.0.1.0.0.255"
_P = ["1.0.1.7.0.255", "1.0.2.7.0.255", "1.0.3.7.0.255", "1.0.4.7.0.255"]
_E = ["1.0.1.8.0.255", "1.0.2.8.0.255", "1.0.3.8.0.255", "1.0.4.8.0.255"]
_TXT = [t[0] for t in AIDON_TEXT]
AIDON_LAYOUTS = {
    "no1": ["1.0.1.7.0.255"],
    "no2-1ph": _TXT + _P + ["1.0.31.7.0.255", "1.0.32.7.0.255"],
    "no2-3ph": _TXT + _P + ["1.0.31.7.0.255", "1.0.51.7.0.255", "1.0.71.7.0.255", "1.0.32.7.0.255", "1.0.52.7.0.255", "1.0.72.7.0.255"],
    "no2-3ph-it": _TXT + _P + ["1.0.31.7.0.255", "1.0.71.7.0.255", "1.0.32.7.0.255", "1.0.52.7.0.255", "1.0.72.7.0.255"],
    "no3-1ph": _TXT + _P + ["1.0.31.7.0.255", "1.0.32.7.0.255", AIDON_CLOCK] + _E,
    "no3-3ph": _TXT + _P + ["1.0.31.7.0.255", "1.0.51.7.0.255", "1.0.71.7.0.255", "1.0.32.7.0.255", "1.0.52.7.0.255", "1.0.72.7.0.255", AIDON_CLOCK] + _E,
    "se": [AIDON_CLOCK] + _P + ["1.0.31.7.0.255", "1.0.51.7.0.255", "1.0.71.7.0.255", "1.0.32.7.0.255", "1.0.52.7.0.255", "1.0.72.7.0.255"]
    + [f"1.0.{c}.7.0.255" for c in (21, 22, 23, 24, 41, 42, 43, 44, 61, 62, 63, 64)] + _E,
}


def cde(obis: str) -> str:
    p = obis.split(".")
    return ".".join(p[2:5])


@st.composite
def aidon_list_st(draw):
    """Returns (layout name, [element spec]); element spec = ('text', obis, str) | ('clock', obis, dtspec) | ('reg', obis, kind, value, exp, unit)."""
    layout = draw(st.sampled_from(list(AIDON_LAYOUTS) + ["subset"]))
    if layout == "subset":
        pool = list(dict.fromkeys(_TXT + [AIDON_CLOCK] + list(AIDON_REG)))
        codes = draw(st.lists(st.sampled_from(pool), min_size=1, max_size=16, unique=True))
    else:
        codes = AIDON_LAYOUTS[layout]
    wide_scaler = draw(st.booleans())
    any_type = draw(st.integers(0, 3)) == 0
    out = []
    for code in codes:
        if code in _TXT:
            out.append(("text", code, draw(st.sampled_from([dict(AIDON_TEXT)[code]]) | ascii_text_st)))
        elif code == AIDON_CLOCK:
            out.append(("clock", code, draw(dt_spec_st())))
        else:
            kind, exp, unit = AIDON_REG[code]
            if any_type:
                kind = draw(st.sampled_from(["u32", "i16", "u16"]))
            exp = draw(st.sampled_from([exp, exp, 0, -1, 1, -2, 2, -3, 3]) if not wide_scaler else (st.integers(-6, 6) | st.sampled_from([-128, -40, -30, -20, -19, 7, 15, 16, 18, 19, 20, 22, 27, 28, 29, 30, 38, 127])))  # the scaler is an int8
            unit = draw(st.sampled_from([unit, unit] + list(UNITS)))
            out.append(("reg", code, kind, draw(reg_st(kind)), exp, unit))
    return (layout, out)


def aidon_body(elements):
    """Encode; returns (notification body bytes, expected dict)."""
    body = bytearray([T_ARRAY, len(elements)])
    exp = {"meter_manufacturer": "Aidon"}
    for el in elements:
        kind, code = el[0], el[1]
        key = name_of(cde(code))
        if kind == "text":
            body += bytes([T_STRUCT, 2]) + obis6(code) + visible(el[2])
            exp[key] = el[2]
        elif kind == "clock":
            body += bytes([T_STRUCT, 2]) + obis6(code) + dt_tagged(tuple(el[2]))
            exp[key] = dt_expected(tuple(el[2]))
        else:
            _k, _c, rkind, value, e, unit = el
            body += bytes([T_STRUCT, 3]) + obis6(code) + enc_reg(rkind, value) + scaler_unit(e, UNITS[unit])
            exp[key] = Num(Fraction(value) * Fraction(10) ** e)
    return bytes(body), exp


# ============================================================================================================
# Kaifa: positional lists (bare values) and the Swedish OBIS-tagged list
# ============================================================================================================

K3 = ["list_ver_id", "meter_id", "meter_type", "active_power_import", "active_power_export", "reactive_power_import", "reactive_power_export",
      "current_l1", "current_l2", "current_l3", "voltage_l1", "voltage_l2", "voltage_l3", "meter_datetime",
      "active_power_import_total", "active_power_export_total", "reactive_power_import_total", "reactive_power_export_total"]
K3_1PH = ["list_ver_id", "meter_id", "meter_type", "active_power_import", "active_power_export", "reactive_power_import", "reactive_power_export",
          "current_l1", "voltage_l1", "meter_datetime",
          "active_power_import_total", "active_power_export_total", "reactive_power_import_total", "reactive_power_export_total"]
KAIFA_POSITIONAL = {
    1: ["active_power_import"],
    9: K3_1PH[:9],
    13: K3[:13],
    14: K3_1PH,
    18: K3,
}
KAIFA_SE_OBIS = [
    ("1.0.0.2.129.255", "list_ver_id"), ("0.0.96.1.0.255", "meter_id"), ("0.0.96.1.7.255", "meter_type"),
    ("1.0.1.7.0.255", "active_power_import"), ("1.0.2.7.0.255", "active_power_export"), ("1.0.3.7.0.255", "reactive_power_import"), ("1.0.4.7.0.255", "reactive_power_export"),
    ("1.0.31.7.0.255", "current_l1"), ("1.0.51.7.0.255", "current_l2"), ("1.0.71.7.0.255", "current_l3"),
    ("1.0.32.7.0.255", "voltage_l1"), ("1.0.52.7.0.255", "voltage_l2"), ("1.0.72.7.0.255", "voltage_l3"),
    ("0.0.1.0.0.255", "meter_datetime"),
    ("1.0.1.8.0.255", "active_power_import_total"), ("1.0.2.8.0.255", "active_power_export_total"), ("1.0.3.8.0.255", "reactive_power_import_total"), ("1.0.4.8.0.255", "reactive_power_export_total"),
]
_KAIFA_TEXT = {"list_ver_id": "KFM_001", "meter_id": "6970631402614476", "meter_type": "MA304H3E"}


def kaifa_scale(name: str, reg: int) -> Num:
    if name.startswith("current_"):
        return Num(Fraction(reg, 1000))
    if name.startswith("voltage_"):
        return Num(Fraction(reg, 10))
    return Num(Fraction(reg))


@st.composite
def kaifa_list_st(draw):
    """(layout, [(name, kind, value)], apdu_dt, tagged) - layout int (positional) or 'se'."""
    layout = draw(st.sampled_from([1, 9, 13, 14, 18, "se"]))
    names = KAIFA_POSITIONAL[layout] if layout != "se" else [n for _o, n in KAIFA_SE_OBIS]
    distinct = draw(st.booleans())
    ascii_only = draw(st.integers(0, 5)) == 5  # a list whose every octet is 7-bit ASCII (small registers, no clock)
    used = set()
    items = []
    for n in names:
        if n in _KAIFA_TEXT:
            items.append((n, "text", draw(st.sampled_from([_KAIFA_TEXT[n]]) | text1_st)))
        elif n == "meter_datetime":
            items.append((n, "clock", draw(dt_spec_st())))
        else:
            v = draw(small_reg_st if ascii_only else reg_st("u32"))
            while distinct and not ascii_only and v in used:
                v = (v * 7 + 13) % 2**32
            used.add(v)
            items.append((n, "reg", v))
    if layout == "se":
        apdu_dt = draw(st.none() | dt_spec_st())
    else:
        apdu_dt = draw(dt_spec_st())
    return (layout, items, apdu_dt, draw(st.booleans()))


def kaifa_body(layout, items):
    exp = {"meter_manufacturer": "Kaifa"}
    if layout == "se":
        body = bytearray([T_STRUCT, 2 * len(items)])
        for (code, name), (n, kind, v) in zip(KAIFA_SE_OBIS, items):
            assert n == name
            body += obis6(code)
            body += octet_text(v) if kind == "text" else (dt_tagged(tuple(v)) if kind == "clock" else u32(v))
    else:
        body = bytearray([T_STRUCT, len(items)])
        for n, kind, v in items:
            body += octet_text(v) if kind == "text" else (dt_tagged(tuple(v)) if kind == "clock" else u32(v))
    for n, kind, v in items:
        exp[n] = v if kind == "text" else (dt_expected(tuple(v)) if kind == "clock" else kaifa_scale(n, v))
    return bytes(body), exp


# ============================================================================================================
# Kamstrup: list version string, then OBIS-tagged elements, optional null-data padding
# ============================================================================================================

KAM_ID = [("1.1.0.0.5.255", "meter_id", "5706567000000000"), ("1.1.96.1.1.255", "meter_type", "6861111BN242101040")]
KAM_P = [("1.1.1.7.0.255", "active_power_import"), ("1.1.2.7.0.255", "active_power_export"), ("1.1.3.7.0.255", "reactive_power_import"), ("1.1.4.7.0.255", "reactive_power_export")]
KAM_I = [("1.1.31.7.0.255", "current_l1"), ("1.1.51.7.0.255", "current_l2"), ("1.1.71.7.0.255", "current_l3")]
KAM_U = [("1.1.32.7.0.255", "voltage_l1"), ("1.1.52.7.0.255", "voltage_l2"), ("1.1.72.7.0.255", "voltage_l3")]
KAM_CLOCK = ("0.1.1.0.0.255", "meter_datetime")
KAM_E = [("1.1.1.8.0.255", "active_power_import_total"), ("1.1.2.8.0.255", "active_power_export_total"), ("1.1.3.8.0.255", "reactive_power_import_total"), ("1.1.4.8.0.255", "reactive_power_export_total")]
KAM_LAYOUTS = {
    "10s-3ph": KAM_P + KAM_I + KAM_U,
    "10s-1ph": KAM_P + KAM_I[:1] + KAM_U[:1],
    "10s-1ph-1q": KAM_P[:1] + KAM_I[:1] + KAM_U[:1],
    "hour-3ph": KAM_P + KAM_I + KAM_U + [KAM_CLOCK] + KAM_E,
    "hour-1ph": KAM_P + KAM_I[:1] + KAM_U[:1] + [KAM_CLOCK] + KAM_E,
    "hour-1ph-1q": KAM_P[:1] + KAM_I[:1] + KAM_U[:1] + [KAM_CLOCK] + KAM_E[:1],
}
_CT_TYPES = ["6851111BN242101040", "685", "6850000000000000AB", "68500"]
_NONCT_TYPES = ["6861111BN242101040", "6841138BN245101090", "6841121BN243101040", "684", "6 85", "0685", "68", "", "586", "6865"]
_NONCT_TYPES += [pre + t for pre in (" ", "  ", "\t", "\n", "\r\n", "\x00", "\x0b", "\x0c", "+", "-", "0", "x", "'", '"', "\x7f") for t in ("685", "6851111BN242101040")]  # something (padding, sign, quote) in front of 685: not "beginning with 685"


@st.composite
def kamstrup_list_st(draw):
    """(layout, list_ver, [(obis, name, kind, value)], pads, apdu_dt, tagged)."""
    layout = draw(st.sampled_from(list(KAM_LAYOUTS)))
    ct = draw(st.booleans())
    mtype = draw(st.sampled_from(_CT_TYPES) | ascii_text_st.map(lambda s: "685" + s[:15])) if ct else draw(st.sampled_from(_NONCT_TYPES) | ascii_text_st.filter(lambda s: not s.startswith("685")))
    items = [(KAM_ID[0][0], "meter_id", "text", draw(st.sampled_from([KAM_ID[0][2]]) | ascii_text_st)), (KAM_ID[1][0], "meter_type", "text", mtype)]
    for code, name in KAM_LAYOUTS[layout]:
        if name == "meter_datetime":
            items.append((code, name, "clock", draw(dt_spec_st())))
        elif name.startswith("voltage_"):
            items.append((code, name, "u16", draw(reg_st("u16"))))
        else:
            items.append((code, name, "u32", draw(reg_st("u32"))))
    if draw(st.integers(0, 7)) == 7:
        items = [it for it in items if it[1] != "meter_type"]  # no meter type element at all: nothing says CT
        if draw(st.booleans()):
            items = [it for it in items if it[1] != "meter_id"]
    if draw(st.integers(0, 3)) == 3:
        items = list(draw(st.permutations(items)))  # the statement fixes no element order (only: list version first)
    pad_mode = draw(st.sampled_from(["none", "none", "some", "all"]))
    pads = [0 if pad_mode == "none" else (draw(st.integers(0, 6)) if pad_mode == "some" else draw(st.integers(1, 6))) for _ in range(len(items) + 1)]
    if draw(st.integers(0, 15)) == 15:
        pads[draw(st.integers(0, len(pads) - 1))] = draw(st.sampled_from([200, 1000, 1900, 2500]))  # a long run of null-data
    list_ver = draw(st.sampled_from(["Kamstrup_V0001"]) | ascii_text_st)
    return (layout, list_ver, items, pads, draw(dt_spec_st()), draw(st.booleans()))


def kamstrup_body(list_ver, items, pads):
    """Element count = 1 + 2 per OBIS element (the documented 'structure of 0x19 elements' for 12 OBIS elements)."""
    body = bytearray([T_STRUCT, 1 + 2 * len(items)])
    body += visible(list_ver) + bytes(pads[0])
    exp = {"meter_manufacturer": "Kamstrup", "list_ver_id": list_ver}
    mtype = next((v for _c, n, _k, v in items if n == "meter_type"), "")
    is_ct = mtype.startswith("685")
    for (code, name, kind, v), pad in zip(items, pads[1:]):
        body += obis6(code)
        if kind == "text":
            body += visible(v)
            exp[name] = v
        elif kind == "clock":
            body += dt_tagged(tuple(v))
            exp[name] = dt_expected(tuple(v))
        else:
            body += u32(v) if kind == "u32" else u16(v)
            if name.startswith("current_"):
                exp[name] = Num(Fraction(v, 1000 if is_ct else 100), "tol")
            elif name.endswith("_total"):
                exp[name] = Num(Fraction(v) * 10)
            else:
                exp[name] = Num(Fraction(v))
        body += bytes(pad)
    return bytes(body), exp, is_ct


def scribble(d):
    """What a careless caller might do with a returned dictionary: results handed out earlier must not be shared with later ones."""
    if isinstance(d, dict):
        for k in list(d)[::2]:
            d.pop(k)
        for k in list(d):
            d[k] = "scribbled"
        d["scribbled-key"] = 1


TZS = ["UTC", "Europe/Oslo", "America/New_York", "Australia/Lord_Howe", "Pacific/Apia", "Asia/Kathmandu"]


class local_tz:
    """Run a block with the process's local time zone set to one of TZS (decoding must not depend on it)."""

    def __init__(self, selector: int):
        self.tz = TZS[selector % len(TZS)]

    def __enter__(self):
        import os
        import time

        self.old = os.environ.get("TZ")
        os.environ["TZ"] = self.tz
        time.tzset()
        return self.tz

    def __exit__(self, *exc):
        import os
        import time

        if self.old is None:
            os.environ.pop("TZ", None)
        else:
            os.environ["TZ"] = self.old
        time.tzset()
        return False


def same_instant_twin(spec, new_dev):
    """Another date-time denoting the SAME instant with a different deviation (civil fields shifted), or None if not representable."""
    y, mo, d, dow, h, mi, sec, hs, dev, status = spec
    if dev == UNSPEC_DEV or new_dev == dev:
        return None
    try:
        t = _dt.datetime(y, mo, d, h, mi, sec) + _dt.timedelta(minutes=dev - new_dev)  # utc = local + deviation
    except OverflowError:
        return None
    return (t.year, t.month, t.day, dow, t.hour, t.minute, t.second, hs, new_dev, status)


def run_in_thread(fn):
    """Run fn() on a fresh (non-main) thread and return its result / re-raise its exception."""
    import threading

    box = {}

    def target():
        try:
            box["r"] = fn()
        except BaseException as exc:  # noqa: BLE001
            box["e"] = exc

    th = threading.Thread(target=target)
    th.start()
    th.join()
    if "e" in box:
        raise box["e"]
    return box.get("r")
