"""Deterministic virtual-time asyncio loop, fake connection factory / transport, and a scenario runner for
han.meter_connection.ConnectionManager (C17, C18).

The loop is a SelectorEventLoop whose selector never blocks: instead of waiting `timeout` seconds it advances
loop.time() by `timeout`. Being asked to block forever means nothing can ever happen again (deadlock/quiescence).
A hook runs between loop iterations; it is used to inject close() and to sample asyncio.all_tasks().
"""
from __future__ import annotations

import asyncio
import datetime as _real_dt
import selectors
import types


class Quiescent(Exception):
    """The loop was asked to block forever: no timers, no ready callbacks."""


class Livelock(Exception):
    """Thousands of loop iterations without the virtual clock advancing: something spins."""


SPIN_LIMIT = 20000


class _VSelector(selectors.BaseSelector):
    def __init__(self, loop):
        self._loop = loop
        self._sel = selectors.DefaultSelector()

    def register(self, fileobj, events, data=None):
        return self._sel.register(fileobj, events, data)

    def unregister(self, fileobj):
        return self._sel.unregister(fileobj)

    def modify(self, fileobj, events, data=None):
        return self._sel.modify(fileobj, events, data)

    def select(self, timeout=None):
        ready = self._sel.select(0)
        if ready:
            return ready
        if timeout is None:
            raise Quiescent()
        if timeout > 0:
            self._loop._vtime += timeout
        return []

    def close(self):
        self._sel.close()

    def get_map(self):
        return self._sel.get_map()


class VirtualLoop(asyncio.SelectorEventLoop):
    def __init__(self):
        self._vtime = 0.0
        self._spin_time, self._spin_count = -1.0, 0
        self.iteration = 0
        self.on_iteration = None
        super().__init__(selector=_VSelector(self))
        self._clock_resolution = 1e-9

    def time(self):
        return self._vtime

    def _run_once(self):
        self.iteration += 1
        if self._vtime != self._spin_time:
            self._spin_time, self._spin_count = self._vtime, 0
        else:
            self._spin_count += 1
            if self._spin_count > SPIN_LIMIT:
                raise Livelock()
        if self.on_iteration is not None:
            self.on_iteration(self.iteration)
        super()._run_once()


# ---------------------------------------------------------------------------------------------------------------
# wall clock shim for han.meter_connection (datetime.datetime.utcnow) -> virtual clock


def install_clock_shim(mc, loop, epoch=None):
    """Make the manager's wall clock follow loop.time(). Returns a restore() function and the mode used."""
    epoch = epoch or _real_dt.datetime(2021, 1, 1, 0, 0, 0)

    class VDateTime(_real_dt.datetime):
        @classmethod
        def utcnow(cls):
            return epoch + _real_dt.timedelta(seconds=loop.time())

        @classmethod
        def now(cls, tz=None):
            t = epoch + _real_dt.timedelta(seconds=loop.time())
            return t if tz is None else t.replace(tzinfo=_real_dt.timezone.utc).astimezone(tz)

    cur = getattr(mc, "datetime", None)
    if isinstance(cur, types.ModuleType):
        shim = types.SimpleNamespace(**{k: getattr(_real_dt, k) for k in dir(_real_dt) if not k.startswith("__")})
        shim.datetime = VDateTime
        mc.datetime = shim
        return (lambda: setattr(mc, "datetime", cur)), "module"
    if isinstance(cur, type):
        mc.datetime = VDateTime
        return (lambda: setattr(mc, "datetime", cur)), "class"
    return (lambda: None), "none"


# ---------------------------------------------------------------------------------------------------------------
# fakes


class FakeTransport(asyncio.BaseTransport):
    def __init__(self, world, idx, protocol):
        super().__init__()
        self.world = world
        self.idx = idx
        self.protocol = protocol
        self.closed = False
        self.close_raises = False
        self._raised_once = False
        self.closed_at = None
        self.lost_reported = False
        self.close_calls = []

    def _report_lost(self, exc):
        if not self.lost_reported:
            self.lost_reported = True
            self.world.event("conn_end", self.idx)
            self.protocol.connection_lost(exc)

    def close(self):
        self.close_calls.append(self.world.loop.time())
        if self.close_raises and self.closed and not self._raised_once:
            # e.g. a serial adapter that was unplugged: closing the dead transport fails. Only the first close() after the
            # loss raises - that is the protocol's own call inside connection_lost(); later calls (manager.close()) succeed.
            self._raised_once = True
            raise OSError("fake transport: close() on a dead connection failed")
        if not self.closed:
            self.closed = True
            self.closed_at = self.world.loop.time()
            self.world.event("transport_close", self.idx)
            self.world.loop.call_soon(self._report_lost, None)  # real transports call connection_lost(None) soon after close()

    def is_closing(self):
        return self.closed

    def lose(self):
        """The peer / the line drops the connection."""
        if not self.closed:
            self.closed = True
            self.closed_at = self.world.loop.time()
            self.world.event("transport_lost", self.idx)
            self._report_lost(ConnectionResetError("connection lost"))

    def eof(self, gap):
        """The peer half-closes: eof_received() first; connection_lost() follows only `gap` later (gap < 0: that many loop iterations)."""
        if self.closed:
            return
        self.world.event("transport_eof", self.idx)
        keep_open = self.protocol.eof_received()
        if keep_open:
            return
        self.closed = True  # closing: is_closing() is true, but the connection has not ended before connection_lost()
        self.closed_at = self.world.loop.time()

        def lost():
            self.world.event("transport_lost", self.idx)
            self._report_lost(None)

        if gap >= 0:
            self.world.loop.call_later(gap, lost)
        else:
            def hop(n):
                if n <= 0:
                    lost()
                else:
                    self.world.loop.call_soon(hop, n - 1)

            hop(int(-gap))

    def get_extra_info(self, name, default=None):
        return ("fake-host", 1000 + self.idx) if name == "peername" else default


class World:
    """Everything observable about one run."""

    def __init__(self, loop, script, mc):
        self.loop = loop
        self.script = list(script)
        self.mc = mc
        self.events = []  # (virtual time, iteration, kind, arg)
        self.attempts = []  # dict(start, end, outcome, transport)
        self.transports = []
        self.max_tasks = 0
        self.finished = False
        self.task_limit = 200  # abort a run early when the task count explodes (keeps leak scenarios cheap)

    def event(self, kind, arg=None):
        if not self.finished:
            self.events.append((self.loop.time(), self.loop.iteration, kind, arg))

    def step_for(self, n):
        if n < len(self.script):
            return tuple(self.script[n])
        return ("ok", 0.0, None)

    async def factory(self):
        n = len(self.attempts)
        outcome, latency, lifetime, lossmode = (self.step_for(n) + (None, None))[:4]
        outcome, _, teardown = outcome.partition("~")  # "ok~1.5": when cancelled, the attempt needs 1.5 s to unwind (releasing a half-open resource)
        rec = {"start": self.loop.time(), "end": None, "outcome": None, "transport": None, "n": n}
        self.attempts.append(rec)
        self.event("attempt_start", n)
        try:
            if latency:
                await asyncio.sleep(latency)
        except asyncio.CancelledError:
            rec["end"], rec["outcome"] = self.loop.time(), "cancelled"
            self.event("attempt_cancelled", n)
            if teardown:
                await asyncio.sleep(float(teardown))
                self.event("attempt_unwound", n)
            raise
        rec["end"] = self.loop.time()
        if outcome.startswith("fail"):
            rec["outcome"] = "fail"
            self.event("attempt_fail", n)
            kind = outcome.partition(":")[2] or "ConnectionRefusedError"
            exc = {"ConnectionRefusedError": ConnectionRefusedError, "TimeoutError": asyncio.TimeoutError, "OSError": OSError, "ValueError": ValueError,
                   "RuntimeError": RuntimeError, "EOFError": EOFError, "KeyError": KeyError, "Exception": Exception}[kind]
            raise exc(f"scripted failure #{n}")
        from han import dlde

        protocol = self.mc.SmartMeterMessagePayloadProtocol(asyncio.Queue(), [dlde.ModeDReader()])
        tr = FakeTransport(self, len(self.transports), protocol)
        self.transports.append(tr)
        rec["outcome"], rec["transport"] = "ok", tr.idx
        protocol.connection_made(tr)
        self.event("attempt_ok", n)
        if lifetime is not None:
            if lifetime < 0:  # negative lifetime: lost after |lifetime| seconds AND close() on the dead transport raises
                tr.close_raises = True
            if lossmode is None:
                self.loop.call_later(abs(lifetime), tr.lose)
            else:  # "eof:<gap>": half-close, eof_received() first and connection_lost() only <gap> later
                self.loop.call_later(abs(lifetime), tr.eof, float(str(lossmode).partition(":")[2] or 0.05))
        return tr, protocol


def run_scenario(script, *, close_at_iteration=None, close_at_time=None, horizon=400.0, drain=200.0, configure=None, sample_tasks=True, use_shim=True, bystander_close_at=None, epoch=None, tz=None):
    """Run ConnectionManager.connect_loop() on a fresh virtual loop.

    close() is injected either before loop iteration `close_at_iteration` or at virtual time `close_at_time`.
    The run ends when connect_loop() has completed and `drain` further virtual seconds have passed, or at
    `horizon` seconds (after the close, if any), or when the loop is quiescent.
    Returns a dict with the world and what happened.
    """
    from han import meter_connection as mc

    loop = VirtualLoop()
    asyncio.set_event_loop(loop)
    restore, shim_mode = install_clock_shim(mc, loop, epoch) if use_shim else ((lambda: None), "off")
    from vlib import fakeclock

    old_tz = None
    if tz is not None:  # the process's local time zone (a POSIX TZ rule): pacing must not depend on it
        import os
        import time as _time

        old_tz = os.environ.get("TZ", "")
        os.environ["TZ"] = tz
        _time.tzset()
    start = 1_609_459_200.0 if epoch is None else epoch.replace(tzinfo=_real_dt.timezone.utc).timestamp()
    fclock = fakeclock.FakeClock(start=start, source=loop.time)  # time.time()/monotonic() follow the virtual loop as well
    fclock.__enter__()
    world = World(loop, script, mc)
    out = {"world": world, "closed_at": None, "closed_iteration": None, "loop_done_at": None, "loop_exc": None, "quiescent": False, "shim": shim_mode}
    try:
        mgr = mc.ConnectionManager(world.factory)
        if configure:
            configure(mgr)
        out["mgr"] = mgr

        def do_close():
            if out["closed_at"] is None:
                out["closed_at"] = loop.time()
                out["closed_iteration"] = loop.iteration
                world.event("close")
                mgr.close()
                loop.call_later(drain, loop.stop)

        def hook(it):
            if sample_tasks:
                n = len(asyncio.all_tasks(loop))
                if n > world.max_tasks:
                    world.max_tasks = n
                    if n > world.task_limit:
                        out["aborted_task_explosion"] = True
                        loop.stop()
            if close_at_iteration is not None and it == close_at_iteration:
                do_close()

        loop.on_iteration = hook
        if bystander_close_at is not None:
            # a second, unrelated ConnectionManager on the same loop: it connects, stays connected, and is closed at the given
            # virtual time. Managers must be independent: nothing of this may show in the first manager's trace.
            other_world = World(loop, [("ok", 0.0, None)], mc)
            other = mc.ConnectionManager(other_world.factory)
            loop.create_task(other.connect_loop())
            loop.call_at(bystander_close_at, other.close)
            out["bystander_world"] = other_world
        main = loop.create_task(mgr.connect_loop())

        def main_done(t):
            out["loop_done_at"] = loop.time()
            world.event("connect_loop_done")
            if not t.cancelled() and t.exception() is not None:
                out["loop_exc"] = t.exception()

        main.add_done_callback(main_done)
        if close_at_time is not None:
            loop.call_at(close_at_time, do_close)
        loop.call_at(horizon, loop.stop)
        try:
            loop.run_forever()
        except Quiescent:
            out["quiescent"] = True
        except Livelock:
            out["livelock"] = True
        world.finished = True
        out["end_time"] = loop.time()
        out["iterations"] = loop.iteration
        out["pending_tasks_at_end"] = len([t for t in asyncio.all_tasks(loop) if not t.done()])
        out["main_done"] = main.done()
    finally:
        restore()
        fclock.__exit__(None, None, None)
        if old_tz is not None:
            import os
            import time as _time

            if old_tz:
                os.environ["TZ"] = old_tz
            else:
                os.environ.pop("TZ", None)
            _time.tzset()
        # cancel whatever is left so nothing outlives the case
        try:
            pending = [t for t in asyncio.all_tasks(loop) if not t.done()]
            for t in pending:
                t.cancel()
            if pending:
                loop.on_iteration = None
                try:
                    loop._spin_count = SPIN_LIMIT - 200  # a spinning task gets little time to wind down
                    loop.run_until_complete(asyncio.gather(*pending, return_exceptions=True))
                except (Quiescent, Livelock, RuntimeError):
                    pass
        finally:
            asyncio.set_event_loop(None)
            loop.close()
    return out
