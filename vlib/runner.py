"""Common runner for the /verif property checks.

A *check* (one per property) is a list of *clauses*.  A clause is either

* a HypClause: a Hypothesis strategy + an oracle function ``oracle(case) -> Info``
  that raises ``Violation`` when the property is broken on that case, or
* an EnumClause: a finite domain enumerated by index, sharded by index range, with
  the same kind of oracle.

The runner shards every clause over worker processes (fork), merges the counters,
keeps the first (shrunk) failure of every clause, writes the replay file and the
evidence file, and prints the VIOLATION / KNOWN-FINDING lines.

Exit codes: 0 property held on everything explored, 1 violation, 2 harness error.
"""
from __future__ import annotations

import hashlib
import json
import multiprocessing as mp
import os
import sys
import time
import traceback
from dataclasses import dataclass, field
from typing import Any, Callable, Iterable

VERIF_DIR = os.path.dirname(os.path.dirname(os.path.abspath(__file__)))
NPROC = int(os.environ.get("VERIF_NPROC", "16"))


# ----------------------------------------------------------------------------
# basic types


class Violation(Exception):
    """The property is broken on the current case."""

    def __init__(self, detail: str, sig: str | None = None):
        super().__init__(detail)
        self.detail = detail
        self.sig = sig  # signature for known-finding matching / bucketing


@dataclass
class Info:
    """What the oracle reports about a case that passed."""

    nontrivial: bool = False
    classes: tuple = ()
    sample: Any = None  # abbreviated, JSON-able representation (optional)
    counts: Any = None  # optional dict of additive counters (e.g. executions inside one scenario)


def fail(detail: str, sig: str | None = None):
    raise Violation(detail, sig)


def guarded(fn: Callable, *args, what: str = "", **kw):
    """Call code under test; an escaping exception is a violation, not a harness error."""
    try:
        return fn(*args, **kw)
    except Violation:
        raise
    except BaseException as exc:  # noqa: BLE001 - code under test
        if isinstance(exc, (KeyboardInterrupt, SystemExit, BudgetExceeded)):
            raise
        tb = traceback.extract_tb(exc.__traceback__)
        where = "?"
        for fr in reversed(tb):
            if "/han/" in fr.filename:
                where = f"{os.path.basename(fr.filename)}:{fr.name}"
                break
        raise Violation(
            f"{what or getattr(fn, '__name__', 'call')} raised {type(exc).__name__}: {exc!s:.200} at {where}",
            sig=f"raise:{type(exc).__name__}:{where}",
        ) from None


class BudgetExceeded(BaseException):
    """Raised by resource-budget tracers (C15)."""


# ----------------------------------------------------------------------------
# JSON encoding of cases (bytes, tuples, nested containers)


def enc(x: Any) -> Any:
    if isinstance(x, (bytes, bytearray)):
        return {"__b": bytes(x).hex()}
    if isinstance(x, tuple):
        return {"__t": [enc(i) for i in x]}
    if isinstance(x, list):
        return [enc(i) for i in x]
    if isinstance(x, dict):
        return {"__d": [[enc(k), enc(v)] for k, v in x.items()]}
    if isinstance(x, (str, int, float, bool)) or x is None:
        return x
    if hasattr(x, "isoformat"):
        return {"__dt": x.isoformat()}
    raise TypeError(f"cannot encode {type(x)}")


def dec(x: Any) -> Any:
    if isinstance(x, list):
        return [dec(i) for i in x]
    if isinstance(x, dict):
        if "__b" in x:
            return bytes.fromhex(x["__b"])
        if "__t" in x:
            return tuple(dec(i) for i in x["__t"])
        if "__d" in x:
            return {dec(k): dec(v) for k, v in x["__d"]}
        if "__dt" in x:
            import datetime

            return datetime.datetime.fromisoformat(x["__dt"])
        raise TypeError(f"cannot decode {x}")
    return x


def abbreviate(x: Any, limit: int = 96) -> Any:
    """Readable, size-limited form of a case for the evidence samples."""
    if isinstance(x, (bytes, bytearray)):
        h = bytes(x).hex()
        return f"hex:{h}" if len(h) <= limit else f"hex[{len(x)}]:{h[:limit//2]}..{h[-limit//4:]}"
    if isinstance(x, (tuple, list)):
        out = [abbreviate(i, limit) for i in x[:12]]
        if len(x) > 12:
            out.append(f"...(+{len(x)-12})")
        return out
    if isinstance(x, dict):
        return {str(k): abbreviate(v, limit) for k, v in list(x.items())[:16]}
    if isinstance(x, str) and len(x) > limit * 2:
        return x[:limit] + f"...[{len(x)}]"
    if isinstance(x, (str, int, float, bool)) or x is None:
        return x
    return repr(x)[: limit * 2]


def case_hash(case: Any) -> int:
    return int.from_bytes(
        hashlib.blake2b(repr(case).encode("utf-8", "replace"), digest_size=8).digest(), "big"
    )


# ----------------------------------------------------------------------------
# clauses


@dataclass
class HypClause:
    name: str
    strategy: Any  # hypothesis SearchStrategy (built lazily if callable)
    oracle: Callable[[Any], Info]
    quick: int = 1000
    thorough: int = 20000
    doc: str = ""

    def get_strategy(self):
        return self.strategy() if callable(self.strategy) and not hasattr(self.strategy, "example") else self.strategy


@dataclass
class EnumClause:
    """Finite domain: ``size(tier)`` cases; ``case_at(i, tier)`` builds case i.

    If ``batch`` is given it is called as batch(lo, hi, tier) -> (evals, nontrivial,
    classes dict, samples list) and must raise Violation itself (used for very large
    domains where per-case overhead matters); ``case_at`` is then only used for replay.
    """

    name: str
    size: Callable[[str], int]
    case_at: Callable[[int, str], Any]
    oracle: Callable[[Any], Info]
    batch: Callable | None = None
    doc: str = ""
    exhaustive: bool = True


@dataclass
class FuzzClause:
    """Coverage-guided byte-level campaign (atheris/libFuzzer) through the same oracle as a HypClause; parent-side."""

    name: str
    target: str  # property id understood by fuzz/target.py
    oracle: Callable[[Any], Info]
    quick: tuple = (2, 1500)  # (processes, runs per process)
    thorough: tuple = (16, 120000)
    max_len: int = 700
    doc: str = ""


@dataclass
class Check:
    pid: str
    level: str
    rule: str
    clauses: list
    assumptions: list = field(default_factory=list)
    extra: Callable[[], dict] | None = None  # extra coverage keys computed at the end
    hang_is_violation: bool = False  # a case on which the code under test never returns: violation (C15) or harness error
    hang_limit_s: float = 420.0  # seconds without a heartbeat before a worker is declared stuck


# ----------------------------------------------------------------------------
# known findings


def load_known(pid: str):
    path = os.path.join(VERIF_DIR, "KNOWN_FINDINGS.txt")
    known = []
    if os.path.exists(path):
        for line in open(path, encoding="utf-8"):
            line = line.strip()
            if not line.startswith("known:"):
                continue
            rest = line[len("known:"):].strip()
            parts = rest.split(None, 2)
            if len(parts) < 2 or parts[0] != f"property={pid}" or not parts[1].startswith("sig="):
                continue
            known.append((parts[1][4:], parts[2] if len(parts) > 2 else ""))
    return known


# ----------------------------------------------------------------------------
# worker side


class _Stats:
    def __init__(self):
        self.evals = 0
        self.nontrivial_hashes = set()
        self.classes = {}
        self.samples = []
        self.excluded_known = {}
        self.failure = None  # (case, detail, sig)

    def record(self, case, info: Info):
        self.evals += 1
        if info is None:
            return
        for c in info.classes:
            self.classes[c] = self.classes.get(c, 0) + 1
        if info.counts:
            for c, n in info.counts.items():
                self.classes[c] = self.classes.get(c, 0) + n
        if info.nontrivial:
            self.nontrivial_hashes.add(case_hash(case))
            if len(self.samples) < 3:
                self.samples.append(info.sample if info.sample is not None else abbreviate(case))

    def pack(self):
        return {
            "evals": self.evals,
            "hashes": self.nontrivial_hashes,
            "classes": self.classes,
            "samples": self.samples,
            "excluded_known": self.excluded_known,
            "failure": self.failure,
        }


def _derive_seed(seed: int, name: str, shard: int) -> int:
    h = hashlib.blake2b(f"{seed}/{name}/{shard}".encode(), digest_size=8).digest()
    return int.from_bytes(h, "big")


import pickle as _pickle  # noqa: E402

_HB_FD = None
_HB = None  # (shared array of heartbeat times, worker index, path of the in-flight case file) - set in worker processes


def _heartbeat(case=None):
    if _HB is None:
        return
    global _HB_FD
    hb, idx, path = _HB
    hb[idx] = time.time()
    if case is not None:
        try:
            if _HB_FD is None:
                _HB_FD = os.open(path, os.O_RDWR | os.O_CREAT, 0o600)
            data = _pickle.dumps(case, protocol=_pickle.HIGHEST_PROTOCOL)
            os.pwrite(_HB_FD, len(data).to_bytes(8, "big") + data, 0)  # one syscall; length-prefixed, no truncate needed
        except Exception:  # noqa: BLE001
            pass


def _run_oracle(clause, case, stats: _Stats, known_sigs):
    """Run the oracle once; returns True if passed (or known), raises Violation otherwise."""
    _heartbeat(case)
    try:
        info = clause.oracle(case)
    except Violation as v:
        if v.sig is not None and v.sig in known_sigs:
            stats.excluded_known[v.sig] = stats.excluded_known.get(v.sig, 0) + 1
            stats.evals += 1
            return
        stats.failure = (enc(case), v.detail, v.sig)
        raise
    stats.record(case, info)


def _worker_hyp(clause: HypClause, n: int, seed: int, shard: int, known_sigs, shrink: bool):
    import hypothesis
    from hypothesis import HealthCheck, Phase, given, settings

    stats = _Stats()
    if n <= 0:
        return stats.pack()
    phases = [Phase.generate] + ([Phase.shrink] if shrink else [])

    @hypothesis.seed(_derive_seed(seed, clause.name, shard))
    @settings(
        max_examples=n,
        database=None,
        deadline=None,
        derandomize=False,
        report_multiple_bugs=False,
        phases=phases,
        suppress_health_check=[HealthCheck.too_slow, HealthCheck.data_too_large, HealthCheck.large_base_example],
        print_blob=False,
    )
    @given(clause.get_strategy())
    def run(case):
        _run_oracle(clause, case, stats, known_sigs)

    try:
        run()
    except Violation:
        pass  # stats.failure holds the last (= minimal) failing case
    except hypothesis.errors.Flaky:
        # The oracle raised a Violation for a case that passed when Hypothesis ran the same case again. The oracles are
        # pure functions of (case, code under test), so this means the code under test carries state between calls:
        # report the recorded failing case, marked as history-dependent (its replay may pass in a fresh process).
        if stats.failure is None:
            raise
        case_enc, detail, sig = stats.failure
        stats.failure = (case_enc, "[history-dependent: the same case passed when run again in the same process - state carried between calls] " + detail, sig)
    return stats.pack()


def _worker_enum(clause: EnumClause, lo: int, hi: int, tier: str, known_sigs):
    stats = _Stats()
    if clause.batch is not None:
        try:
            evals, hashes_or_n, classes, samples = clause.batch(lo, hi, tier)
        except Violation as v:
            case = getattr(v, "case", None)
            stats.failure = (enc(case), v.detail, v.sig)
            return stats.pack()
        stats.evals = evals
        stats.nontrivial_hashes = hashes_or_n  # set or int (count of distinct by construction)
        stats.classes = classes
        stats.samples = samples
        return stats.pack()
    for i in range(lo, hi):
        case = clause.case_at(i, tier)
        try:
            _run_oracle(clause, case, stats, known_sigs)
        except Violation:
            break
    return stats.pack()


_CHECK: Check | None = None
_JOBCTX: dict = {}


def _job(job):
    kind, ci, a, b = job
    clause = _CHECK.clauses[ci]
    t0 = time.time()
    try:
        if kind == "hyp":
            res = _worker_hyp(clause, a, _JOBCTX["seed"], b, _JOBCTX["known_sigs"], _JOBCTX["shrink"])
        else:
            res = _worker_enum(clause, a, b, _JOBCTX["tier"], _JOBCTX["known_sigs"])
        res["error"] = None
    except BaseException as exc:  # harness error
        res = {"error": (f"{type(exc).__name__}: {exc}"[:600] + "\n" + traceback.format_exc()[-1200:])}
    res["ci"] = ci
    res["wall"] = time.time() - t0
    return res


# ----------------------------------------------------------------------------
# parent side


def _replay_corpus(check: Check, known_sigs):
    """Run every committed corpus case through its clause's oracle."""
    cdir = os.path.join(VERIF_DIR, "replays", "corpus", check.pid)
    results = []
    if not os.path.isdir(cdir):
        return 0, None
    by_name = {c.name: c for c in check.clauses}
    n = 0
    for fn in sorted(os.listdir(cdir)):
        if not fn.endswith(".json"):
            continue
        with open(os.path.join(cdir, fn), encoding="utf-8") as fh:
            doc = json.load(fh)
        clause = by_name.get(doc.get("clause"))
        if clause is None:
            continue
        case = dec(doc["case"])
        n += 1
        try:
            clause.oracle(case)
        except Violation as v:
            if v.sig is not None and v.sig in known_sigs:
                continue
            return n, (clause.name, doc["case"], v.detail, v.sig, os.path.join(cdir, fn))
    return n, None


def write_replay(pid: str, clause_name: str, case_enc, detail: str, sig) -> str:
    ddir = os.path.join(VERIF_DIR, "replays", "found", pid)
    os.makedirs(ddir, exist_ok=True)
    blob = json.dumps(case_enc, sort_keys=True)
    h = hashlib.blake2b(blob.encode(), digest_size=6).hexdigest()
    path = os.path.join(ddir, f"{clause_name}-{h}.json")
    with open(path, "w", encoding="utf-8") as fh:
        json.dump(
            {"property": pid, "clause": clause_name, "case": case_enc, "detail": detail, "sig": sig},
            fh,
            indent=1,
        )
    return path


def run_replay(check: Check, path: str) -> int:
    with open(path, encoding="utf-8") as fh:
        doc = json.load(fh)
    by_name = {c.name: c for c in check.clauses}
    clause = by_name.get(doc.get("clause"))
    if clause is None:
        print(f"HARNESS-ERROR: unknown clause {doc.get('clause')!r} in {path}")
        return 2
    case = dec(doc["case"])
    try:
        info = clause.oracle(case)
    except Violation as v:
        print(f"replay: clause={clause.name} FAILS: {v.detail}")
        print(f"VIOLATION property={check.pid} replay={path}")
        return 1
    print(f"replay: clause={clause.name} passes ({info})")
    return 0


def run_check(check: Check, tier: str, seed: int, only_clauses: Iterable[str] | None = None) -> int:
    global _CHECK
    t0 = time.time()
    known = load_known(check.pid)
    known_sigs = frozenset(s for s, _ in known)
    for sig, text in known:
        print(f"KNOWN-FINDING: property={check.pid} sig={sig} {text}")

    if only_clauses:
        check.clauses = [c for c in check.clauses if c.name in set(only_clauses)]
    _CHECK = check
    _JOBCTX.update(seed=seed, tier=tier, known_sigs=known_sigs, shrink=True)

    violations = []  # (clause, case_enc, detail, sig, path)
    replayed, rfail = _replay_corpus(check, known_sigs)
    if rfail is not None:
        cname, case_enc, detail, sig, src = rfail
        violations.append((cname, case_enc, detail, sig, src))

    scale = float(os.environ.get("VERIF_SCALE", "1"))
    jobs = []
    for ci, clause in enumerate(check.clauses):
        if isinstance(clause, FuzzClause):
            continue
        if isinstance(clause, HypClause):
            total = int((clause.quick if tier == "quick" else clause.thorough) * scale)
            shards = max(1, min(NPROC, total // 25 or 1))
            per = total // shards
            for s in range(shards):
                jobs.append(("hyp", ci, per + (1 if s < total - per * shards else 0), s))
        else:
            size = clause.size(tier)
            shards = max(1, min(NPROC * 4, size // 4 or 1))
            step = (size + shards - 1) // shards
            for lo in range(0, size, step):
                jobs.append(("enum", ci, lo, min(size, lo + step)))

    per_clause = {
        c.name: {"evals": 0, "hashes": set(), "count": 0, "classes": {}, "samples": [], "excluded": {}, "failure": None, "wall": 0.0}
        for c in check.clauses
    }
    errors = []
    ctx = mp.get_context("fork")
    # coverage-guided campaigns run as separate processes alongside the Hypothesis workers (quick tier: 2 small campaigns)
    fuzz_handles = {}
    for clause in check.clauses:
        if isinstance(clause, FuzzClause):
            from vlib import fuzzrun

            nprocs_f, runs_f = clause.quick if tier == "quick" else clause.thorough
            fuzz_handles[clause.name] = (time.time(), fuzzrun.start_campaigns(clause.target, nprocs_f, int(runs_f * scale), seed, clause.max_len))

    def merge(res):
        cname = check.clauses[res["ci"]].name
        if res.get("error"):
            errors.append((cname, res["error"]))
            return
        pc = per_clause[cname]
        pc["evals"] += res["evals"]
        if isinstance(res["hashes"], set):
            pc["hashes"] |= res["hashes"]
        else:
            pc["count"] += int(res["hashes"])
        for k, v in res["classes"].items():
            pc["classes"][k] = pc["classes"].get(k, 0) + v
        if len(pc["samples"]) < 4:
            pc["samples"].extend(res["samples"][: 4 - len(pc["samples"])])
        for k, v in res["excluded_known"].items():
            pc["excluded"][k] = pc["excluded"].get(k, 0) + v
        pc["wall"] += res["wall"]
        if res["failure"] is not None and pc["failure"] is None:
            pc["failure"] = res["failure"]

    # Own worker pool (instead of multiprocessing.Pool) so that a worker stuck inside non-interruptible C code can be
    # detected (heartbeat), its in-flight case recovered, and the worker replaced.
    import pickle
    import queue as _queue
    import tempfile

    nworkers = min(NPROC, max(1, len(jobs)))
    hb = ctx.Array("d", nworkers, lock=False)
    busy = ctx.Array("i", nworkers, lock=False)  # job index + 1 currently held by the worker, 0 = idle
    tmpdir = tempfile.mkdtemp(prefix="verif-inflight-")
    job_q = ctx.Queue()
    res_q = ctx.Queue()
    for ji, job in enumerate(jobs):
        job_q.put((ji, job))

    def worker_main(idx):
        global _HB, _HB_FD
        _HB = (hb, idx, os.path.join(tmpdir, f"w{idx}.pkl"))
        _HB_FD = None
        while True:
            try:
                ji, job = job_q.get(timeout=0.5)
            except _queue.Empty:
                return
            busy[idx] = ji + 1
            hb[idx] = time.time()
            res = _job(job)
            res["ji"] = ji
            busy[idx] = 0
            res_q.put(res)

    procs = {}
    for i in range(nworkers):
        pr = ctx.Process(target=worker_main, args=(i,), daemon=True)
        pr.start()
        procs[i] = pr
    done = set()
    hangs = []
    while len(done) < len(jobs):
        try:
            res = res_q.get(timeout=2.0)
            done.add(res["ji"])
            merge(res)
            continue
        except _queue.Empty:
            pass
        now = time.time()
        for i, pr in list(procs.items()):
            ji = busy[i] - 1
            if ji >= 0 and ji not in done and now - hb[i] > check.hang_limit_s:
                # stuck: recover the in-flight case, kill and replace the worker
                case = None
                try:
                    with open(os.path.join(tmpdir, f"w{i}.pkl"), "rb") as fh:
                        raw = fh.read()
                    case = pickle.loads(raw[8 : 8 + int.from_bytes(raw[:8], "big")])
                except Exception:  # noqa: BLE001
                    pass
                pr.kill()
                pr.join(5)
                done.add(ji)
                ci = jobs[ji][1]
                hangs.append((check.clauses[ci].name, case, now - hb[i]))
                busy[i] = 0
                np_ = ctx.Process(target=worker_main, args=(i,), daemon=True)
                np_.start()
                procs[i] = np_
            elif not pr.is_alive() and ji >= 0 and ji not in done:
                done.add(ji)
                errors.append((check.clauses[jobs[ji][1]].name, f"worker process died (exit code {pr.exitcode}) while running job {jobs[ji]}"))
                busy[i] = 0
                np_ = ctx.Process(target=worker_main, args=(i,), daemon=True)
                np_.start()
                procs[i] = np_
        if all(not pr.is_alive() for pr in procs.values()) and res_q.empty() and len(done) < len(jobs):
            # workers exited although jobs remain (should not happen): restart one
            np_ = ctx.Process(target=worker_main, args=(0,), daemon=True)
            np_.start()
            procs[0] = np_
    for pr in procs.values():
        pr.join(2)
        if pr.is_alive():
            pr.kill()
    import shutil

    shutil.rmtree(tmpdir, ignore_errors=True)
    for cname, case, age in hangs:
        detail = f"the call did not return: no progress for {age:.0f} s inside code that cannot be interrupted (worker killed); case recovered from the worker's in-flight record"
        if case is None:
            errors.append((cname, "worker stuck and its in-flight case could not be recovered"))
        elif check.hang_is_violation:
            if per_clause[cname]["failure"] is None:
                per_clause[cname]["failure"] = (enc(case), detail, "hang")
        else:
            errors.append((cname, f"{detail}; case {abbreviate(case)!r:.300}"))

    for clause in check.clauses:
        if not isinstance(clause, FuzzClause):
            continue
        from vlib import fuzzrun

        nprocs, runs = clause.quick if tier == "quick" else clause.thorough
        tf, handle = fuzz_handles[clause.name]
        fr = fuzzrun.finish_campaigns(handle, clause.oracle, timeout_s=600 if tier == "quick" else 3 * 3600)
        pc = per_clause[clause.name]
        pc["evals"] = fr["executions"]
        pc["classes"] = {"campaigns": fr["campaigns"], "unconfirmed-crash-files": fr["unconfirmed"]}
        pc["samples"] = [{"engine": "atheris/libFuzzer", "campaigns": fr["campaigns"], "runs_per_campaign": int(runs * scale), "corpus": "empty and fixtures alternating", "notes": fr["notes"]}]
        pc["wall"] = time.time() - tf
        for case_enc, detail, sig in fr["violations"]:
            if sig is not None and sig in known_sigs:
                pc["excluded"][sig] = pc["excluded"].get(sig, 0) + 1
                continue
            if pc["failure"] is None:
                pc["failure"] = (case_enc, detail, sig)

    for cname, pc in per_clause.items():
        if pc["failure"] is not None:
            case_enc, detail, sig = pc["failure"]
            path = write_replay(check.pid, cname, case_enc, detail, sig)
            violations.append((cname, case_enc, detail, sig, path))

    wall = time.time() - t0
    evaluations = sum(pc["evals"] for pc in per_clause.values()) + replayed
    distinct = sum(len(pc["hashes"]) + pc["count"] for pc in per_clause.values())
    samples = []
    for cname, pc in per_clause.items():
        for s in pc["samples"][:3]:
            samples.append({"clause": cname, "case": s})
    coverage = {
        "evaluations": evaluations,
        "distinct_nontrivial": distinct,
        "rule": check.rule,
        "samples": samples,
        "replayed_corpus": replayed,
        "shards": len(jobs),
        "clauses": {
            cname: {
                "evaluations": pc["evals"],
                "distinct_nontrivial": len(pc["hashes"]) + pc["count"],
                "classes": dict(sorted(pc["classes"].items())),
                "excluded_known": pc["excluded"],
                "cpu_s": round(pc["wall"], 2),
                "exhaustive": bool(isinstance(c, EnumClause) and c.exhaustive),
                "doc": c.doc,
            }
            for (cname, pc), c in zip(per_clause.items(), check.clauses)
        },
        "known_findings_listed": [s for s, _ in known],
        "exhaustive": False,
    }
    if check.extra is not None:
        try:
            coverage.update(check.extra())
        except Exception as exc:  # noqa: BLE001
            errors.append(("extra", repr(exc)))
    evidence = {
        "property_id": check.pid,
        "tier": tier,
        "seed": seed,
        "level": check.level,
        "coverage": coverage,
        "assumptions": check.assumptions,
        "wall_s": round(wall, 2),
        "violations": len(violations),
    }
    if errors:
        evidence["coverage"]["harness_errors"] = [f"{c}: {e[:400]}" for c, e in errors[:5]]
    os.makedirs(os.path.join(VERIF_DIR, "evidence"), exist_ok=True)
    if not only_clauses and not os.environ.get("VERIF_NO_EVIDENCE"):
        with open(os.path.join(VERIF_DIR, "evidence", f"{check.pid}.json"), "w", encoding="utf-8") as fh:
            json.dump(evidence, fh, indent=1, default=str)

    for cname, pc in per_clause.items():
        cls = ", ".join(f"{k}={v}" for k, v in sorted(pc["classes"].items())[:14])
        print(f"[{check.pid}] clause {cname}: evals={pc['evals']} nontrivial={len(pc['hashes']) + pc['count']} cpu={pc['wall']:.1f}s {cls}")
    print(f"[{check.pid}] tier={tier} seed={seed} evaluations={evaluations} distinct_nontrivial={distinct} replayed={replayed} wall={wall:.1f}s")

    if errors:
        for c, e in errors[:3]:
            print(f"HARNESS-ERROR: clause={c}: {e}", file=sys.stderr)
        if not violations:
            return 2
    if violations:
        for cname, case_enc, detail, sig, path in violations:
            print(f"violation: clause={cname} sig={sig} detail={detail[:600]}")
            print(f"VIOLATION property={check.pid} replay={path}")
        return 1
    return 0
