"""Entry point: python -m vlib.main <ID> [--tier quick|thorough] [--replay FILE] [--clause NAME ...]."""
from __future__ import annotations

import argparse
import importlib
import os
import sys
import traceback


def main() -> int:
    ap = argparse.ArgumentParser()
    ap.add_argument("pid")
    ap.add_argument("--tier", default=os.environ.get("VERIF_TIER", "quick"), choices=["quick", "thorough"])
    ap.add_argument("--replay")
    ap.add_argument("--clause", action="append")
    args = ap.parse_args()
    try:
        seed = int(os.environ.get("VERIF_SEED", "1") or "1")
    except ValueError:
        seed = 1
    try:
        import han

        repo = os.path.realpath(os.environ.get("VERIF_REPO", "/repo"))
        if not os.path.realpath(han.__file__).startswith(repo + os.sep):
            print(f"HARNESS-ERROR: han imported from {han.__file__}, expected under {repo}", file=sys.stderr)
            return 2
        from vlib import runner

        mod = importlib.import_module(f"checks.{args.pid.lower()}")
        check = mod.build()
        if args.replay:
            return runner.run_replay(check, args.replay)
        return runner.run_check(check, args.tier, seed, args.clause)
    except SystemExit:
        raise
    except BaseException:  # noqa: BLE001
        traceback.print_exc()
        print("HARNESS-ERROR: see traceback", file=sys.stderr)
        return 2


if __name__ == "__main__":
    sys.exit(main())
