"""Deterministic resource budgets for a call (C15): Python call events overall and line events inside han/ code,
counted with sys.monitoring (PEP 669); exceeding a budget aborts the call with BudgetExceeded (a BaseException)."""
from __future__ import annotations

import sys
import types

from vlib.runner import BudgetExceeded

_mon = sys.monitoring
TOOL = _mon.PROFILER_ID
_state = {"calls": 0, "lines": 0, "max_calls": 0, "max_lines": 0, "armed": False}
_installed = False


def _on_start(code, offset):
    if _state is not None and _state["armed"]:
        _state["calls"] += 1
        if _state["calls"] > _state["max_calls"]:
            _state["armed"] = False
            raise BudgetExceeded(f"call budget exceeded: > {_state['max_calls']} Python calls")


def _on_line(code, line):
    if _state is not None and _state["armed"]:
        _state["lines"] += 1
        if _state["lines"] > _state["max_lines"]:
            _state["armed"] = False
            raise BudgetExceeded(f"line budget exceeded: > {_state['max_lines']} line events in {code.co_filename}:{code.co_name}")


def install():
    global _installed
    if _installed:
        return
    try:
        _mon.use_tool_id(TOOL, "verif-budget")
    except ValueError:
        pass
    _mon.register_callback(TOOL, _mon.events.PY_START, _on_start)
    _mon.register_callback(TOOL, _mon.events.LINE, _on_line)
    _mon.set_events(TOOL, _mon.events.PY_START)
    # line events only for code defined in han/ files
    import han
    import os

    root = os.path.dirname(os.path.realpath(han.__file__))
    n = 0
    for code in _live_han_code(root):
        _mon.set_local_events(TOOL, code, _mon.events.LINE)
        n += 1
    _installed = True
    import atexit

    atexit.register(lambda: _mon.set_events(TOOL, 0))  # no callbacks while the interpreter shuts down
    return n


def _live_han_code(root):
    """Live code objects whose file is under han/: walk functions, classes and construct lambdas reachable from han modules."""
    import gc
    import os

    seen = set()
    out = []
    for obj in gc.get_objects():
        code = None
        if isinstance(obj, types.FunctionType):
            code = obj.__code__
        elif isinstance(obj, types.CodeType):
            code = obj
        if code is None or id(code) in seen:
            continue
        try:
            fn = os.path.realpath(code.co_filename)
        except (TypeError, ValueError):
            continue
        if fn.startswith(root + os.sep):
            stack = [code]
            while stack:
                c = stack.pop()
                if id(c) in seen:
                    continue
                seen.add(id(c))
                out.append(c)
                stack.extend(k for k in c.co_consts if isinstance(k, types.CodeType))
    return out


def run(fn, *args, max_calls: int, max_lines: int):
    """Call fn under budgets. Returns (result, calls, lines). BudgetExceeded propagates."""
    install()
    _state.update(calls=0, lines=0, max_calls=max_calls, max_lines=max_lines, armed=True)
    try:
        res = fn(*args)
    finally:
        _state["armed"] = False
    return res, _state["calls"], _state["lines"]
