"""Clean message tails used after noise (C14, C16): sequence-numbered frames / readouts and the must-deliver rule."""
from __future__ import annotations

import random

from vlib import gen_hdlc as GH
from vlib import gen_p1 as GP
from vlib.ref_hdlc import ESC, FLAG


def clean_frames(n: int, stuffing: bool, abort: bool, seed: int, min_info=4, max_info=24):
    """n distinct well-formed frames carrying a sequence number. Without stuffing they are completely flag-free
    (C16's 'flag-free frame'), with abort detection they contain no 7D directly before a 7E or the frame end."""
    rnd = random.Random(seed)
    out = []
    for i in range(n):
        while True:
            k = rnd.randint(min_info, max_info)
            info = bytes([0xE6, 0xE7, 0x00]) + f"{i:04d}".encode() + rnd.randbytes(k)
            dest = rnd.choice([b"\x01", b"\x03", b"\x41", b"\x02\x04\x06\x09"])
            src = rnd.choice([b"\x01", b"\x02\x01", b"\x00\x02\x23", b"\x10\x20\x40\x03"])
            if stuffing:
                if rnd.random() < 0.5:
                    info += bytes(rnd.choice([FLAG, ESC, 0x5E, 0x5D]) for _ in range(3))
                fr = GH.build_frame(0xA, 0, dest, src, rnd.choice([0x10, 0x13, 0x30]), info)
                break
            fr = GH.build_frame(0xA, 0, dest, src, rnd.choice([0x10, 0x13, 0x30]), info)
            if FLAG in fr:
                continue
            if abort and (fr[-1] == ESC):
                continue
            break
        out.append(fr)
    if n >= 3:
        # frames whose header check sequence is 00 00 (and contain no 7E): position 1 or 2, never the first
        for k, spec in enumerate(GH.SPECIAL_SPECS[:2]):
            fr = GH.frame_from_spec(spec)  # (the information field must stay as searched: the length is part of the header)
            if stuffing or (FLAG not in fr and not (abort and fr[-1] == ESC)):
                out[1 + (seed + k) % (n - 1)] = fr
                break
    return out


def frames_tail(frames, stuffing: bool, seed: int, opening=True):
    """Frames delimited as on a real line: single shared flags or double flags. Returns (bytes, [start offset of each frame])."""
    rnd = random.Random(seed ^ 0x77)
    s = bytearray()
    starts = []
    if opening:
        s.append(FLAG)
    for fr in frames:
        w = GH.wire(fr, stuffing)
        starts.append(len(s))
        s += w
        s.append(FLAG)
        if rnd.random() < 0.4:
            s.append(FLAG)  # separate closing and opening flags
    return bytes(s), starts


def clean_readouts(n: int, seed: int):
    rnd = random.Random(seed)
    out = []
    for i in range(n):
        ident = (rnd.choice(["LGF", "ELL", "KFM", "ISk"]), rnd.choice("0359"), rnd.choice(["", "\\2"]), rnd.choice(["E360", "253833635_A", "KAIFA-METER", "x"]))
        body = GP.render_ident(ident) + b"\r\n" + f"0-0:96.1.9({i:06d})\r\n".encode() + GP.expand_lines(rnd.randint(0, 6), rnd.getrandbits(32), blank_first=False)
        out.append(GP.add_end(body, rnd.choice(["upper", "upper", "lower", "none"])))
    return out


def check_delivered(valid_bytes_in_order, must, what, fail, sig):
    """Every element of `must` (list of bytes, distinct) appears exactly once, in order, among valid_bytes_in_order."""
    pos = -1
    for k, m in enumerate(must):
        cnt = valid_bytes_in_order.count(m)
        if cnt != 1:
            fail(f"{what}: clean message #{k} ({m[:24].hex()}.., {len(m)} bytes) delivered {cnt} times as a valid message (expected once); {len(valid_bytes_in_order)} valid messages in total", sig=sig + ("-lost" if cnt == 0 else "-dup"))
        p = valid_bytes_in_order.index(m)
        if p <= pos:
            fail(f"{what}: clean message #{k} delivered out of order", sig=sig + "-order")
        pos = p
