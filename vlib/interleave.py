"""The harness owns the thread schedule: run call A on a thread, pause it after its k-th line event inside han/ code,
run call B to completion on the calling thread, resume A. (Deterministic; no sleeping, no racing.)"""
from __future__ import annotations

import sys
import threading


class _Pause(Exception):
    pass


def count_han_lines(fn_a) -> int:
    n = [0]

    def tracer(frame, event, arg):
        if "/han/" not in frame.f_code.co_filename:
            return None
        if event == "line":
            n[0] += 1
        return tracer

    box = {}

    def target():
        sys.settrace(tracer)
        try:
            box["r"] = fn_a()
        except BaseException as exc:  # noqa: BLE001
            box["e"] = exc
        finally:
            sys.settrace(None)

    th = threading.Thread(target=target)
    th.start()
    th.join()
    return n[0]


def run_interleaved(fn_a, fn_b, k: int):
    """Returns (result_a | exception_a, result_b | exception_b, reached) - reached = A really was paused at its k-th line."""
    at_k = threading.Event()
    resume = threading.Event()
    n = [0]
    box = {}

    def tracer(frame, event, arg):
        if "/han/" not in frame.f_code.co_filename:
            return None
        if event == "line":
            n[0] += 1
            if n[0] == k:
                at_k.set()
                resume.wait(30)
        return tracer

    def target():
        sys.settrace(tracer)
        try:
            box["a"] = fn_a()
        except BaseException as exc:  # noqa: BLE001
            box["a"] = exc
        finally:
            sys.settrace(None)
            at_k.set()  # in case A finished before reaching line k

    th = threading.Thread(target=target)
    th.start()
    at_k.wait(30)
    reached = n[0] >= k and th.is_alive()
    try:
        box["b"] = fn_b()
    except BaseException as exc:  # noqa: BLE001
        box["b"] = exc
    resume.set()
    th.join(60)
    return box.get("a"), box.get("b"), reached
