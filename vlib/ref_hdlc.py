"""Reference predicates for HDLC frames (ISO/IEC 13239 frame format type 3 as used by DLMS) - not a second reader."""
from __future__ import annotations

from vlib.ref_fcs import fcs16_octets

FLAG = 0x7E
ESC = 0x7D


def ref_valid(b: bytes) -> bool:
    """Length field equals the octet count and the FCS over all octets but the last two equals them (low first)."""
    if len(b) < 4:
        return False
    length_field = ((b[0] << 8) | b[1]) & 0x7FF
    return length_field == len(b) and fcs16_octets(b[:-2]) == b[-2:]


def _address(b: bytes, pos: int):
    """Variable-length address: octets up to and including the first with the low-order bit set."""
    i = pos
    while i < len(b):
        if b[i] & 1:
            return b[pos : i + 1]
        i += 1
    return None


def ref_fields(b: bytes):
    """Field octets of a frame, or None when the frame is too short to contain address+control+check sequence."""
    if len(b) < 2:
        return None
    fmt = (b[0] << 8) | b[1]
    dest = _address(b, 2)
    if dest is None:
        return None
    src = _address(b, 2 + len(dest))
    if src is None:
        return None
    ctrl = 2 + len(dest) + len(src)
    if len(b) < ctrl + 3:
        return None
    info_pos = ctrl + 3
    fields = {
        "format_type": fmt >> 12,
        "segmentation": bool((fmt >> 11) & 1),
        "frame_length": fmt & 0x7FF,
        "destination_address": bytes(dest),
        "source_address": bytes(src),
        "control": b[ctrl],
        "hcs": bytes(b[ctrl + 1 : ctrl + 3]),
        "fcs": bytes(b[-2:]),
        "header_only": len(b) == info_pos,
        # information field is defined when there is room for HCS + FCS (len >= info_pos + 2) or there is none at all
        "payload": bytes(b[info_pos:-2]) if len(b) >= info_pos + 2 else (None if len(b) == info_pos else "ambiguous"),
    }
    return fields


def unstuff(raw: bytes) -> bytes:
    """RFC 1662 octet un-stuffing of a flag-free segment; a trailing lone escape octet un-stuffs to nothing."""
    out = bytearray()
    esc = False
    for o in raw:
        if esc:
            out.append(o ^ 0x20)
            esc = False
        elif o == ESC:
            esc = True
        else:
            out.append(o)
    return bytes(out)


def stuff(b: bytes, extra: frozenset | set = frozenset()) -> bytes:
    """Octet stuffing: flag and escape octets always, 'extra' octet values optionally."""
    out = bytearray()
    extra = set(extra) - {0x5E, 0x5D}  # escaping these would put a flag / escape octet on the wire
    for o in b:
        if o == FLAG or o == ESC or o in extra:
            out.append(ESC)
            out.append(o ^ 0x20)
        else:
            out.append(o)
    return bytes(out)


def find_embedding(stream: bytes, frames: list, stuffing: bool):
    """Match the returned frames, in order, to disjoint flag-delimited pieces of the input.

    Returns (True, positions) or (False, index of the first frame that cannot be placed).
    Greedy earliest placement is optimal for ordered interval matching, so failure means no embedding exists.
    """
    if stuffing:
        flags = [i for i, o in enumerate(stream) if o == FLAG]
        segs = [(flags[k] + 1, flags[k + 1]) for k in range(len(flags) - 1)]
        k = 0
        pos = []
        for fi, fr in enumerate(frames):
            while k < len(segs):
                a, e = segs[k]
                k += 1
                if e > a and unstuff(stream[a:e]) == fr:
                    pos.append((a, e))
                    break
            else:
                return False, fi
        return True, pos
    start = 0  # first stream index the next frame's first octet may use
    pos = []
    for fi, fr in enumerate(frames):
        n = len(fr)
        if n == 0:
            return False, fi
        p = start
        while True:
            p = stream.find(fr, p)
            if p < 0:
                return False, fi
            if p >= 1 and stream[p - 1] == FLAG and p + n < len(stream) and stream[p + n] == FLAG:
                break
            p += 1
        pos.append((p, p + n))
        start = p + n + 1
    return True, pos
