r"""Generators for IEC 62056-21 mode D ("P1") readouts, written from the standard's syntax.

Identification line:  '/' XXX Z [\W]* Ident CR LF     (XXX: manufacturer FLAG id, third letter may be lower case;
                      Z: baud-rate digit; \W: escape sequences; Ident: 1..16 printable chars except '/' and '!')
Data block:           data lines  address '(' value ['*' unit] ')' ...   CR LF
End line:             '!' [4 hex digits CRC16] CR LF
The CRC is CRC-16/ARC over every byte from '/' through '!' inclusive (vlib.ref_fcs.crc16_arc).
"""
from __future__ import annotations

import random
import re

from hypothesis import strategies as st

from vlib.ref_fcs import crc16_arc

UPPER = "ABCDEFGHIJKLMNOPQRSTUVWXYZ"
LETTERS = UPPER + UPPER.lower()
ID_CHARS = "".join(chr(c) for c in range(0x20, 0x7F) if chr(c) not in "/!")
# the harness's own statement of a well-formed identification line (stripped of the line end)
IDENT_RE = re.compile(r"\A/[A-Z][A-Z][A-Za-z][0-9](\\[A-Za-z0-9_])*[ -~]{0,16}\Z")

KNOWN_CDE = [
    "1.8.0", "2.8.0", "3.8.0", "4.8.0", "1.7.0", "2.7.0", "3.7.0", "4.7.0", "21.7.0", "22.7.0", "41.7.0", "42.7.0",
    "61.7.0", "62.7.0", "23.7.0", "24.7.0", "43.7.0", "44.7.0", "63.7.0", "64.7.0", "31.7.0", "51.7.0", "71.7.0",
    "32.7.0", "52.7.0", "72.7.0",
]
UNITS = ["kW", "kWh", "kvar", "kvarh", "kVAr", "kVArh", "V", "A", "var", "varh"]


@st.composite
def ident_st(draw, id_min=1):
    man = draw(st.sampled_from(["LGF", "XMX", "ELL", "KFM", "ISk", "ADN", "AUX", "KAm"]) | st.tuples(st.sampled_from(UPPER), st.sampled_from(UPPER), st.sampled_from(LETTERS)).map("".join))
    baud = draw(st.sampled_from("0123456789"))
    esc = "".join("\\" + draw(st.sampled_from("2345WAz9_")) for _ in range(draw(st.sampled_from([0, 0, 0, 1, 2, 5, 6, 8]))))
    n = draw(st.sampled_from([1, 4, 5, 9, 16]) | st.integers(id_min, 16))
    ident = "".join(draw(st.lists(st.sampled_from(ID_CHARS), min_size=n, max_size=n)))
    if ident.startswith("\\"):
        ident = "E" + ident[1:]
    ident = ident.rstrip(" ") or "E"  # no trailing blank (readers strip the line)
    if ident.lstrip(" ") != ident:
        ident = "E" + ident[1:]
    return (man, baud, esc, ident)


def render_ident(ident) -> bytes:
    man, baud, esc, idn = ident
    return f"/{man}{baud}{esc}{idn}\r\n".encode("ascii")


def add_end(body: bytes, checksum: str) -> bytes:
    """body = identification line + data lines; append the end line. checksum: 'upper'|'lower'|'none'."""
    crc = crc16_arc(body + b"!")
    if checksum == "none":
        return body + b"!\r\n"
    text = f"{crc:04X}" if checksum == "upper" else f"{crc:04x}"
    return body + b"!" + text.encode() + b"\r\n"


def expand_lines(n_lines: int, seed: int, blank_first=True) -> bytes:
    """Deterministic data block of n lines in the style of real meters (pure function of the arguments)."""
    rnd = random.Random(seed)
    out = bytearray(b"\r\n" if blank_first else b"")
    for _ in range(n_lines):
        kind = rnd.randrange(10)
        a, b = rnd.choice([(1, 0), (0, 0), (1, 1), (0, 1)])
        cde = rnd.choice(KNOWN_CDE) if kind < 7 else f"{rnd.randrange(100)}.{rnd.randrange(100)}.{rnd.randrange(256)}"
        if kind < 6:
            w = rnd.randrange(1, 9)
            d = rnd.randrange(0, 4)
            val = "".join(rnd.choice("0123456789") for _ in range(w)) + ("." + "".join(rnd.choice("0123456789") for _ in range(d)) if d else "")
            line = f"{a}-{b}:{cde}({val}*{rnd.choice(UNITS)})"
        elif kind == 6:
            line = f"0-0:1.0.0({rnd.randrange(100):02d}{rnd.randrange(1,13):02d}{rnd.randrange(1,29):02d}{rnd.randrange(24):02d}{rnd.randrange(60):02d}{rnd.randrange(60):02d}{rnd.choice('WS')})"
        elif kind == 7:
            line = f"{a}-{b}:{cde}({''.join(rnd.choice('0123456789ABCDEF') for _ in range(rnd.randrange(0, 40)))})"
        elif kind == 8:
            line = f"{a}-{b}:{cde}(" + ")(".join("".join(rnd.choice("0123456789") for _ in range(rnd.randrange(1, 12))) for _ in range(rnd.randrange(2, 6))) + ")"
        else:
            line = f"{a}-{b}:{cde}({rnd.randrange(1000)})" + f"{a}-{b}:{rnd.choice(KNOWN_CDE)}({rnd.randrange(1000)}*V)"
        out += line.encode("ascii") + b"\r\n"
    return bytes(out)


@st.composite
def readout_spec_st(draw, max_lines=60):
    """(ident, n_lines, seed, checksum, blank_first) - expanded by build_readout()."""
    ident = draw(ident_st())
    n = draw(st.sampled_from([0, 1, 2, 5, 10, 27]) | st.integers(0, max_lines))
    return (ident, n, draw(st.integers(0, 2**32 - 1)), draw(st.sampled_from(["upper", "upper", "lower", "none"])), draw(st.booleans()))


def build_readout(spec) -> bytes:
    ident, n, seed, checksum, blank_first = spec
    return add_end(render_ident(tuple(ident)) + expand_lines(n, seed, blank_first), checksum)


def true_crc(readout: bytes) -> int:
    """CRC over '/' .. first byte of the end line ('!' at the start of the last line), inclusive."""
    end = end_line_pos(readout)
    return crc16_arc(readout[: end + 1])


def end_line_pos(readout: bytes) -> int:
    """Position of the '!' that starts the last line of the readout (the end character)."""
    body = readout.rstrip(b"\r\n")
    nl = body.rfind(b"\n")
    return nl + 1
