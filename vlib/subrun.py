"""Run a HypClause of a check in a FRESH interpreter whose logging was configured at DEBUG level before `han` is imported
(module-level code in the library that looks at the logging configuration at import time behaves differently then).

usage: python -m vlib.subrun <ID> <clause> <max_examples> <seed>      prints one JSON line: {"evals": n, "failure": null | [case, detail, sig]}
"""
import json
import logging
import sys


class _Swallow(logging.Handler):
    def emit(self, record):
        try:
            record.getMessage()
        except Exception:  # noqa: BLE001 - real handlers route formatting errors to handleError()
            pass


logging.basicConfig(level=logging.DEBUG, handlers=[_Swallow()])  # BEFORE the library is imported

import importlib  # noqa: E402


def main():
    pid, cname, n, seed = sys.argv[1], sys.argv[2], int(sys.argv[3]), int(sys.argv[4])
    import hypothesis
    from hypothesis import HealthCheck, Phase, given, settings

    from vlib.runner import Violation, enc

    mod = importlib.import_module(f"checks.{pid.lower()}")
    check = mod.build()
    clause = next(c for c in check.clauses if c.name == cname)
    inner = getattr(mod, "_oracle", None)
    state = {"evals": 0, "failure": None}

    def oracle(case):
        # keep logging at DEBUG for the whole run (the check's own per-case toggle is bypassed)
        logging.disable(logging.NOTSET)
        logging.getLogger().setLevel(logging.DEBUG)
        return (inner or clause.oracle)(case)

    @hypothesis.seed(seed)
    @settings(max_examples=n, database=None, deadline=None, phases=[Phase.generate, Phase.shrink], suppress_health_check=list(HealthCheck), print_blob=False)
    @given(clause.get_strategy())
    def run(case):
        state["evals"] += 1
        try:
            oracle(case)
        except Violation as v:
            state["failure"] = [enc(case), v.detail, v.sig]
            raise

    try:
        run()
    except Violation:
        pass
    except hypothesis.errors.Flaky:
        pass
    print("SUBRUN-RESULT " + json.dumps(state))


if __name__ == "__main__":
    main()
