"""Pool of genuine messages (fixtures + generator output) used by C12, C13, C15."""
from __future__ import annotations

from vlib import gen_cosem as C
from vlib import gen_hdlc as GH
from vlib.pool_data import FIXTURES

DECODER_NAMES = ["Aidon_frame", "Kaifa_frame", "Kamstrup_frame", "P1", "Aidon_notification_body", "Kaifa_notification_body", "Kamstrup_notification_body"]


def p1_block(readout: bytes) -> bytes:
    """Data block of a readout: bytes between the identification line and the end character."""
    r = readout.lstrip()
    return r[r.index(b"\n") + 1 : r.index(b"!")]


def _decoder_of(key):
    meter, form, _ = key
    if meter == "p1":
        return "P1"
    return f"{meter.capitalize()}_{'frame' if form == 'frame' else 'notification_body'}"


# name -> (payload bytes, decoder expected on a fresh AutoDecoder)
GENUINE = {}
for _k, _v in sorted(FIXTURES.items()):
    GENUINE["/".join(_k)] = (p1_block(_v) if _k[0] == "p1" else _v, _decoder_of(_k))

_DT = (2021, 3, 4, 4, 12, 30, 15, 0xFF, -60, 0)


def _generated():
    out = {}
    body, _ = C.aidon_body([("text", "1.1.0.2.129.255", "AIDON_V0001"), ("reg", "1.0.1.7.0.255", "u32", 4711, 0, "W"), ("reg", "1.0.31.7.0.255", "i16", -215, -1, "A"), ("clock", C.AIDON_CLOCK, _DT)])
    out["gen/aidon/body"] = (body, "Aidon_notification_body")
    out["gen/aidon/frame"] = (C.llc_apdu(body, None), "Aidon_frame")
    items = [(n, "text", C._KAIFA_TEXT[n]) if n in C._KAIFA_TEXT else ((n, "clock", _DT) if n == "meter_datetime" else (n, "reg", 77000 + i)) for i, n in enumerate(C.K3_1PH)]
    body, _ = C.kaifa_body(14, items)
    out["gen/kaifa/body14"] = (body, "Kaifa_notification_body")
    out["gen/kaifa/frame14"] = (C.llc_apdu(body, _DT, True), "Kaifa_frame")
    kitems = [(C.KAM_ID[0][0], "meter_id", "text", "5706567000000000"), (C.KAM_ID[1][0], "meter_type", "text", "6851121BN243101040")] + [
        (c, n, "u16" if n.startswith("voltage") else "u32", 230 + i) for i, (c, n) in enumerate(C.KAM_LAYOUTS["10s-3ph"])
    ]
    body, _, _ = C.kamstrup_body("Kamstrup_V0001", kitems, [0, 0, 2] + [0] * (len(kitems) - 2))
    out["gen/kamstrup/body-ct-padded"] = (body, "Kamstrup_notification_body")
    out["gen/kamstrup/frame-ct-padded"] = (C.llc_apdu(body, _DT, False, invoke=0), "Kamstrup_frame")
    out["gen/p1/small"] = (b"\r\n1-0:1.8.0(00001605.055*kWh)\r\n1-0:32.7.0(234.4*V)\r\n0-0:1.0.0(201020085222W)\r\n", "P1")
    # long but perfectly well-formed payloads (longer than an HDLC frame / a P1 readout could carry, yet legal for the decoders)
    body, _, _ = C.kamstrup_body("Kamstrup_V0001", kitems, [0, 1900, 0] + [0] * (len(kitems) - 2))
    out["gen/kamstrup/body-2KiB-null-padding"] = (body, "Kamstrup_notification_body")
    out["gen/kamstrup/frame-2KiB-null-padding"] = (C.llc_apdu(body, _DT, False, invoke=0), "Kamstrup_frame")
    out["gen/p1/10KiB"] = (b"".join(b"1-0:%d.%d.0(%08d*kWh)\r\n" % (i % 200 + 1, i // 200, i) for i in range(400)), "P1")
    return out


GENUINE.update(_generated())
NAMES = sorted(GENUINE)
PRIME_FOR = {d: next(n for n in NAMES if GENUINE[n][1] == d) for d in DECODER_NAMES}


def hdlc_frame_with(payload: bytes, seg: int = 0) -> bytes:
    """A well-formed HDLC frame (unstuffed) carrying payload as its information field, delimited by flags."""
    fr = GH.build_frame(0xA, seg, b"\x01", b"\x02\x01", 0x10, payload[:2030])
    return b"\x7e" + fr + b"\x7e"


# ---- preludes: other decoders' work done in the same process before the decode under test -----------------------------------
# (decoders are documented as independent pure functions: whatever another decoder did before must not matter)

PRELUDES = ["none", "aidon", "kaifa", "kamstrup", "p1", "all"]
_PRELUDE_MSGS = {
    "aidon": ["aidon/frame/no_list_3", "aidon/body/se_list", "gen/aidon/body"],
    "kaifa": ["kaifa/frame/no_list_3", "kaifa/body/no_list_2", "kaifa/body/se_list", "gen/kaifa/frame14"],
    "kamstrup": ["kamstrup/frame/no_list_2_three_phase", "kamstrup/body/no_list_1_single_phase_real_sample", "gen/kamstrup/frame-ct-padded"],
    "p1": ["p1/readout/c", "p1/readout/b", "gen/p1/small"],
}


def run_prelude(kind: str) -> None:
    if kind == "none":
        return
    from han import autodecoder

    names = sum(_PRELUDE_MSGS.values(), []) if kind == "all" else _PRELUDE_MSGS[kind]
    ad = autodecoder.AutoDecoder()
    if kind in ("kamstrup", "all"):
        # lists carrying OBIS codes without a common name (the decoders refuse them today; whatever they do must leave no trace)
        from han import aidon, kaifa, kamstrup

        for cde in ("13.7.0", "33.7.0", "81.7.40", "96.14.0", "9.7.0"):
            c_, d_, e_ = cde.split(".")
            items = [(C.KAM_ID[0][0], "meter_id", "text", "1"), (f"1.1.{c_}.{d_}.{e_}.255", "active_power_import", "u32", 7)]
            body, _, _ = C.kamstrup_body("Kamstrup_V0001", items, [0, 0, 0])
            el = [("reg", f"1.0.{c_}.{d_}.{e_}.255", "u32", 7, 0, "W")]
            for fn, payload in ((kamstrup.decode_notification_body, body), (aidon.decode_notification_body, C.aidon_body(el)[0]), (kaifa.decode_notification_body, bytes([2, 2]) + C.obis6(f"1.0.{c_}.{d_}.{e_}.255") + C.u32(7))):
                try:
                    fn(payload)
                except Exception:  # noqa: BLE001
                    pass
    for n in names:
        try:
            ad.decode_message_payload(GENUINE[n][0])
        except Exception:  # noqa: BLE001 - the prelude's own outcome is not judged here
            pass
