#!/bin/bash
# Offline setup: make sure hypothesis is importable by /venv/bin/python; atheris (optional, thorough tier of C14/C15) into /verif/.deps
here="$(cd "$(dirname "$0")" && pwd)"
export PIP_NO_INDEX=1
W=/opt/veriftools/wheels
/venv/bin/python -c "import hypothesis" 2>/dev/null || /venv/bin/pip install --no-index --find-links "$W" hypothesis || exit 1
if ! PYTHONPATH="$here/.deps" /venv/bin/python -c "import atheris" 2>/dev/null; then
  /venv/bin/pip install --no-index --find-links "$W" --target "$here/.deps" atheris >/dev/null 2>&1 || echo "setup: atheris not installed (optional)"
fi
/venv/bin/python -c "import hypothesis, construct; print('setup ok: hypothesis', hypothesis.__version__)"
