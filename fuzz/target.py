"""atheris (libFuzzer) target for C14 / C15: coverage-guided byte-level fuzzing through the same oracle as the Hypothesis clauses.

usage (one campaign, run as a subprocess by vlib/fuzzrun.py):
    python fuzz/target.py <C14|C15> <out_dir> <corpus_mode: empty|fixtures> [libFuzzer args: -runs=N -seed=S ...]
The raw fuzzer bytes are decoded by a FuzzedDataProvider into a structured case; the semantic oracle runs inside the target.
On a violation the (JSON-encoded) case is written to <out_dir>/violation-<hash>.json before the process aborts, so the parent
can re-confirm it with the deterministic oracle and report it as a replay file.
"""
import hashlib
import json
import os
import sys

pid, out_dir, corpus_mode = sys.argv[1], sys.argv[2], sys.argv[3]
fargs = sys.argv[4:]

import atheris  # noqa: E402

with atheris.instrument_imports(include=["han"]):
    import han  # noqa: F401
    from han import aidon, autodecoder, cosem, dlde, hdlc, kaifa, kamstrup, meter_connection, obis  # noqa: F401

from vlib.runner import Violation, enc  # noqa: E402

if pid == "C14":
    from checks import c14 as mod

    def decode(data):
        fdp = atheris.FuzzedDataProvider(data)
        kind = fdp.ConsumeIntInRange(0, 5)
        if kind == 0:
            cuts = ("none",)
        elif kind == 1:
            cuts = ("bytewise",)
        elif kind == 2:
            cuts = ("single", fdp.ConsumeIntInRange(0, 4096))
        elif kind == 3:
            cuts = ("multi", tuple(fdp.ConsumeIntInRange(0, 4096) for _ in range(fdp.ConsumeIntInRange(1, 5))))
        elif kind == 4:
            cuts = ("fixed", fdp.ConsumeIntInRange(1, 64), fdp.ConsumeIntInRange(0, 63))
        else:
            cuts = ("tail-bytewise",)
        seed = fdp.ConsumeIntInRange(0, 255)
        return (fdp.ConsumeBytes(fdp.remaining_bytes()), cuts, seed)

    oracle = mod.oracle
    clause = "noise"
else:
    from checks import c15 as mod

    def decode(data):
        fdp = atheris.FuzzedDataProvider(data)
        prime = fdp.ConsumeIntInRange(-1, 6)
        entry = mod.ENTRIES[fdp.ConsumeIntInRange(0, len(mod.ENTRIES) - 1)]
        return ("fuzz", fdp.ConsumeBytes(fdp.remaining_bytes()), prime, entry, False)

    oracle = mod.oracle
    clause = "inputs"

count = 0


def test_one_input(data):
    global count
    count += 1
    case = decode(data)
    try:
        oracle(case)
    except Violation as v:
        blob = json.dumps(enc(case), sort_keys=True)
        h = hashlib.blake2b(blob.encode(), digest_size=6).hexdigest()
        with open(os.path.join(out_dir, f"violation-{h}.json"), "w") as fh:
            json.dump({"property": pid, "clause": clause, "case": enc(case), "detail": v.detail, "sig": v.sig}, fh)
        raise


def seed_corpus(cdir):
    os.makedirs(cdir, exist_ok=True)
    if corpus_mode != "fixtures":
        return
    from vlib.pool import GENUINE

    for i, (name, (payload, _d)) in enumerate(sorted(GENUINE.items())):
        pre = bytes([0, 0]) if pid == "C14" else bytes([0, 0])
        with open(os.path.join(cdir, f"seed{i:02d}"), "wb") as fh:
            fh.write(pre + payload)
    if pid == "C14":
        for i, b in enumerate([c14_b for c14_b in (mod.GENUINE_READOUT, mod.GENUINE_FRAME)]):
            with open(os.path.join(cdir, f"genuine{i}"), "wb") as fh:
                fh.write(bytes([0, 0]) + b)


corpus = os.path.join(out_dir, "corpus")
seed_corpus(corpus)
atheris.Setup([sys.argv[0], corpus] + fargs, test_one_input)
import atexit  # noqa: E402

try:
    atheris.Fuzz()
finally:
    with open(os.path.join(out_dir, "count"), "w") as fh:
        fh.write(str(count))
